"""C04 — Signatures: every input signed by the wallet verifies under SIGHASH_ALL with an independent secp256k1;
channel signatures bind claim content, channel, signature and first input; old signatures still validate.

Code under test: lbry/wallet/transaction.py (Transaction.sign, _serialize_for_signature, Output.sign,
get_signature_digest, is_signed_by), lbry/wallet/bip32.py (sign, sign_compact, verify), lbry/schema/base.py, claim.py,
compat.py.
Oracle: vlib/ref/sighash.py (own tx parser + legacy SIGHASH_ALL preimage, validated on Bitcoin block 170 and a LBRY
main-net transaction), vlib/ref/secp256k1.py (pure Python ECDSA, validated on RFC 6979 vectors), vlib/ref/bip32.py,
vlib/ref/pbwire.py.  python-ecdsa is used as a second verifier; a disagreement between the two verifiers is a
harness error, never a verdict.
"""
import asyncio
import hashlib
import struct

from hypothesis import strategies as st

from vlib.runner import Part, Out
from vlib.ref import bip32 as R
from vlib.ref import base58 as B58
from vlib.ref import secp256k1 as EC
from vlib.ref import sighash as SH
from vlib.ref import pbwire as PB
from vlib.ref.lbry_mainnet_vectors import SIGNED_CLAIM_EXAMPLES

PROPERTY_ID = "C04"
LEVEL = "exploration"
EXHAUSTIVE = False
RULE = ("tx_sign: 1-3 accounts (deterministic-chain with small gaps, or single-address) in one wallet on a fresh "
        "in-memory ledger; 1..8 inputs (thorough up to 60) each spending output #pos of its own funding transaction: "
        "plain P2PKH, claim-name+P2PKH, update+P2PKH, support+P2PKH, support-with-data+P2PKH with payloads of 0..1200 "
        "bytes (push-size boundaries 75/76/255/256 and script length 252/253 included) paid to generated addresses "
        "(chain, n) of the accounts; 1..4 generated outputs; tx version/locktime/sequence mostly default, sometimes "
        "generated; signed through Transaction.sign(accounts). Every 4th case also spends 1-2 pay-to-script-hash CLTV "
        "time locks (redeem script built by the reference, key from outside the wallet) through Input.spend_time_lock "
        "+ sign(accounts, {address: key}) as jsonrpc_account_deposit does, alone or between the wallet inputs; those "
        "inputs must carry <sig> <pubkey> <redeem script> with HASH160(redeem) = the spent script hash, HASH160(pubkey) "
        "= the hash inside the redeem script, and a signature valid for the digest whose scriptCode is the redeem "
        "script. non-trivial = >=2 inputs with >=2 distinct keys, or a time-lock spend. "
        "channel: channel claim (name/update script, position 0..2 in its tx, generated metadata, key m/2/n of a "
        "generated seed) signs a stream / repost / collection / empty claim or a support (claim-name or update script, "
        "output position 0..2, 1..3 inputs) via Output.sign; then single-bit flips of the raw transaction in the "
        "regions version byte / channel hash / signature / message / first input txid / first input index / channel "
        "public key (random bits, plus a full sweep of every payload bit for every 15th case with a payload <= 200 bytes), input swap, other "
        "channel, in-memory field edits. non-trivial = every case (>=1 mutation). legacy: signatures made by the "
        "REFERENCE signer following the schemes of earlier releases (v1 protobuf claim with publisherSignature over "
        "sha256(address||claim-without-signature||certificate id); v2 claim over sha256(first input||channel "
        "hash||message)) with high-S or low-S and DER SubjectPublicKeyInfo or compressed channel keys, in v1 "
        "certificate or v2 channel claims, plus 3 real main-net examples (enumerated), all with the same mutations. "
        "After its mutations every legacy case (P2PKH ones) is parsed by the SDK, detached with clear_signature() and signed "
        "by a fresh SDK-made channel: is_signed_by in memory, after a raw round trip, and the reference must all accept. "
        "distinct = distinct canonical JSON of the case.")
ASSUMPTIONS = [
    "scriptCode for the reference digest is the complete script of the spent output (claim prefix included), taken "
    "from the reference's own parse of the funding transaction's raw bytes; no OP_CODESEPARATOR / FindAndDelete "
    "handling (the wallet never emits either)",
    "the DER signature must be strict DER (BIP66) to count as verifying; high S would be accepted by the reference "
    "(plain ECDSA) and is only labelled (class high_s), because the statement does not mention low-S",
    "a mutation 'still validates' only counts as a violation when the mutated bytes decode (google.protobuf) to a "
    "message whose canonical serialisation differs from the signed one; flips that decode to the identical message "
    "(e.g. discarded high bits of a 10 byte varint) are the labelled don't-care class mut_same_message, because the "
    "signature commits to the decoded message",
    "after a mutation any exception from parsing / is_signed_by counts as 'does not validate'",
    "a flipped bit in the channel's public key that yields another encoding of the same point (X9.62 hybrid prefix "
    "06/07 of an uncompressed key, accepted by libsecp256k1) is the don't-care class mut_same_key_other_encoding",
    "a different channel claim carrying the SAME public key validates (is_signed_by compares only the key): labelled "
    "don't-care other_channel_same_key_validates; 'the channel is changed' is read as 'another key'",
    "claim name, amount and (for v2 signatures) the paying address are not covered by channel signatures and are not "
    "mutated; for the v1 scheme the address IS covered and is mutated",
    "legacy certificates with NIST256p / NIST384p keys (allowed by the v1 schema, never produced by the released "
    "apps as far as known) are outside the domain: the reference and the SDK only implement secp256k1",
    "os.urandom / time do not influence the oracle: ECDSA nonces are deterministic (RFC 6979) in libsecp256k1",
]

H = 1 << 31
PREFIX = b"\x55"
SCRIPT_PREFIX = b"\x7a"     # LBRY main net pay-to-script-hash address version
NULL_SIG_INPUT_SEQUENCE = 0xFFFFFFFF


def _lbry():
    import lbry.wallet  # noqa: F401
    from lbry.wallet import Wallet, Ledger, Database, Headers, Account, Transaction, Input, Output
    from lbry.wallet.bip32 import PrivateKey, KeyPath
    from lbry.schema.claim import Claim
    from lbry.schema.support import Support
    return dict(Wallet=Wallet, Ledger=Ledger, Database=Database, Headers=Headers, Account=Account,
                Transaction=Transaction, Input=Input, Output=Output, PrivateKey=PrivateKey, KeyPath=KeyPath,
                Claim=Claim, Support=Support)


_LEDGER = None


def _ledger():
    """a Ledger instance that is only used for address helpers (never opened)"""
    global _LEDGER
    if _LEDGER is None:
        lb = _lbry()
        _LEDGER = lb["Ledger"]({"db": lb["Database"](":memory:"), "headers": lb["Headers"](":memory:")})
    return _LEDGER


def _second_opinion(pub33, digest, r, s):
    """python-ecdsa verdict or None when the package is unavailable"""
    try:
        from ecdsa import SECP256k1, VerifyingKey, BadSignatureError
        from ecdsa.util import sigdecode_string
    except Exception:
        return None
    try:
        vk = VerifyingKey.from_string(bytes(pub33), curve=SECP256k1)
        return bool(vk.verify_digest(r.to_bytes(32, "big") + s.to_bytes(32, "big"), digest,
                                     sigdecode=sigdecode_string))
    except BadSignatureError:
        return False
    except Exception:
        return None


def ref_verify(pub33, digest, r, s):
    """reference verdict, cross-checked with python-ecdsa (disagreement = harness error)"""
    try:
        pt = EC.parse_point(pub33)
    except EC.Secp256k1Error:
        return False
    mine = EC.verify_rs(pt, digest, r, s)
    other = _second_opinion(pub33, digest, r, s) if (0 < r < EC.N and 0 < s < EC.N) else None
    if other is not None and other != mine:
        raise AssertionError("reference verifier (%r) and python-ecdsa (%r) disagree: pub=%s digest=%s r=%x s=%x" % (
            mine, other, bytes(pub33).hex(), digest.hex(), r, s))
    return mine


def selftest():
    SH.selftest()
    R.selftest()
    PB.selftest()
    # the three real main-net examples verify with the reference alone (no lbry code involved)
    for name, (s_hex, c_hex) in SIGNED_CLAIM_EXAMPLES.items():
        ok, why = ref_validate_signed_claim(bytes.fromhex(s_hex), 0, bytes.fromhex(c_hex), 0)
        assert ok, "main-net example %s does not verify with the reference: %s" % (name, why)
    # ... and every input of those six transactions verifies under the reference SIGHASH_ALL (spent output = plain P2PKH)
    for name, pair in SIGNED_CLAIM_EXAMPLES.items():
        for hx in pair:
            tx = SH.parse_tx(bytes.fromhex(hx))
            for i, txin in enumerate(tx.inputs):
                pub = SH.parse_pushes(txin.script)[1][1]
                ok, why, _ = SH.verify_input(tx, i, SH.p2pkh_script(SH.hash160(pub)))
                assert ok, (name, i, why)


# ------------------------------------------------------------------------------------------------------------
# reference validation of channel signatures, from raw bytes only
# ------------------------------------------------------------------------------------------------------------

def channel_key_from_payload(payload):
    """compressed public key of a channel claim payload (v2 unsigned/signed or v1 certificate)"""
    payload = bytes(payload)
    if payload[:1] == b"\x00":
        chan = PB.get(payload[1:], 2)
        key = PB.get(chan, 1) if chan is not None else None
    elif payload[:1] == b"\x01":
        chan = PB.get(payload[85:], 2)
        key = PB.get(chan, 1) if chan is not None else None
    else:
        cert = PB.get(payload, 4)
        key = PB.get(cert, 4) if cert is not None else None
    if key is None:
        raise ValueError("no channel key")
    if len(key) == 33:
        return bytes(key)
    return EC.ser_compressed(EC.parse_point(PB.spki_point(key)))


def ref_channel_id(chan_raw, chan_pos):
    ctx = SH.parse_tx(chan_raw)
    parts = SH.claim_script_parts(ctx.outputs[chan_pos].script)
    if parts["kind"] == "claim":
        return SH.claim_id_hash(ctx.txid_hash, chan_pos), parts
    return bytes(parts["claim_id"]), parts


def ref_signature_facts(signed_raw, out_pos):
    """-> dict(scheme, digest, sig64, channel_hash (internal order), regions) computed from raw bytes"""
    stx = SH.parse_tx(signed_raw)
    txo = stx.outputs[out_pos]
    parts = SH.claim_script_parts(txo.script)
    p = bytes(parts["payload"])
    base = txo.script_offset + parts["payload_offset"]
    if p[:1] == b"\x01":
        if len(p) < 85:
            raise ValueError("signed payload shorter than 85 bytes")
        chan_hash, sig, msg = p[1:21], p[21:85], p[85:]
        digest = hashlib.sha256(stx.inputs[0].outpoint + chan_hash + msg).digest()
        regions = {"version": (base, 1), "channel_hash": (base + 1, 20), "signature": (base + 21, 64),
                   "message": (base + 85, len(msg)), "payload": (base, len(p)),
                   "first_txid": (stx.first_outpoint_offset, 32), "first_nout": (stx.first_outpoint_offset + 32, 4)}
        return {"scheme": "v2", "digest": digest, "sig": sig, "channel_hash": chan_hash, "regions": regions,
                "message": msg}
    if p[:1] in (b"\x00", b"{"):
        raise ValueError("payload is not signed")
    sigmsg = PB.get(p, 5)
    if sigmsg is None:
        raise ValueError("v1 payload without publisherSignature")
    sig, cert_id = PB.get(sigmsg, 3), PB.get(sigmsg, 4)
    h160 = SH.p2pkh_hash_of(txo.script)
    if h160 is not None:
        addr = PREFIX + h160
        addr_at = txo.script_offset + len(txo.script) - 22
    else:
        # the claim pays a script hash (... OP_HASH160 <20> OP_EQUAL): the address of the old scheme is the script address
        tail = bytes(txo.script[-23:])
        if not (len(tail) == 23 and tail[:2] == b"\xa9\x14" and tail[-1:] == b"\x87"):
            raise ValueError("v1 signed claim pays neither a pubkey hash nor a script hash")
        h160 = tail[2:22]
        addr = SCRIPT_PREFIX + h160
        addr_at = txo.script_offset + len(txo.script) - 21
    addr += B58.checksum(addr)
    unsigned = PB.without_field(p, 5)
    digest = hashlib.sha256(addr + unsigned + cert_id).digest()
    regions = {"payload": (base, len(p)), "address": (addr_at, 20)}
    return {"scheme": "v1", "digest": digest, "sig": bytes(sig), "channel_hash": bytes(cert_id)[::-1],
            "regions": regions, "message": unsigned, "h160": h160}


def ref_validate_signed_claim(signed_raw, out_pos, chan_raw, chan_pos, expect_pub=None):
    try:
        facts = ref_signature_facts(signed_raw, out_pos)
        chan_id, cparts = ref_channel_id(chan_raw, chan_pos)
        pub = channel_key_from_payload(cparts["payload"])
    except (ValueError, SH.TxParseError, PB.PBWireError, EC.Secp256k1Error, TypeError, IndexError) as e:
        return False, "unparsable:%s" % type(e).__name__
    if expect_pub is not None and pub != expect_pub:
        return False, "channel-key-not-the-expected-key"
    if facts["channel_hash"] != chan_id:
        return False, "channel-hash-mismatch"
    if len(facts["sig"]) != 64:
        return False, "signature-not-64-bytes"
    r, s = EC.parse_compact_signature(facts["sig"])
    if not ref_verify(pub, facts["digest"], r, s):
        return False, "signature-does-not-verify"
    return True, ""


# ------------------------------------------------------------------------------------------------------------
# part 1: wallet-signed transaction inputs
# ------------------------------------------------------------------------------------------------------------

RG, CG = 4, 2           # receiving / change gap used for generated accounts
KINDS = ["p2pkh", "p2pkh", "claim", "update", "support", "support_data"]
SIZES = [0, 1, 20, 74, 75, 76, 77, 150, 200, 227, 228, 229, 254, 255, 256, 257, 300, 520, 1200]


def payload_strategy():
    return st.one_of(st.sampled_from(SIZES), st.integers(0, 400)).flatmap(
        lambda n: st.binary(min_size=n, max_size=n)).map(lambda b: b.hex())


def spent_strategy(n_accounts):
    return st.fixed_dictionaries({
        "acct": st.integers(0, n_accounts - 1),
        "chain": st.sampled_from([0, 0, 1]),
        "n": st.integers(0, RG - 1),
        "kind": st.sampled_from(KINDS),
        "amount": st.one_of(st.integers(1, 10 ** 8), st.integers(0, 21 * 10 ** 14), st.sampled_from([0, 1, 2 ** 32, 2 ** 63 - 1])),
        "pos": st.integers(0, 3),
        "name": st.text("abcdefghijklmnopqrstuvwxyz0123456789-@", min_size=1, max_size=20),
        "payload": payload_strategy(),
        "claim_id": st.binary(min_size=20, max_size=20).map(lambda b: b.hex()),
        "sequence": st.sampled_from([0xFFFFFFFF] * 6 + [0xFFFFFFFE, 0, 1]),
    })


def new_output_strategy():
    return st.fixed_dictionaries({
        "kind": st.sampled_from(["p2pkh", "p2pkh", "p2sh", "claim", "support"]),
        "amount": st.one_of(st.integers(0, 10 ** 9), st.sampled_from([0, 2 ** 63 - 1])),
        "h160": st.binary(min_size=20, max_size=20).map(lambda b: b.hex()),
        "name": st.text("abcdefghijklmnopqrstuvwxyz", min_size=1, max_size=12),
        "payload": payload_strategy(),
    })


def tx_case(tier):
    max_inputs = 8 if tier == "quick" else 60

    @st.composite
    def build(draw):
        n_acc = draw(st.sampled_from([1, 1, 2, 2, 3]))
        # one wallet never holds the same key material in two accounts
        seeds = draw(st.lists(st.binary(min_size=16, max_size=32), min_size=n_acc, max_size=n_acc, unique=True))
        accounts = [{"seed": sd.hex(), "single": draw(st.integers(0, 5)) == 0} for sd in seeds]
        n_in = draw(st.one_of(st.integers(1, 8), st.integers(1, max_inputs), st.sampled_from([1, 2, max_inputs])))
        inputs = draw(st.lists(spent_strategy(n_acc), min_size=n_in, max_size=n_in))
        outputs = draw(st.lists(new_output_strategy(), min_size=1, max_size=4))
        special = draw(st.integers(0, 5)) == 0
        timelock = None
        if draw(st.integers(0, 3)) == 0:
            # jsonrpc_account_deposit: spend a pay-to-script-hash CLTV time lock with a key from outside the wallet
            # (Input.spend_time_lock + sign(accounts, {address: key})), alone or next to ordinary wallet inputs
            timelock = {"secret": draw(st.binary(min_size=32, max_size=32).filter(
                            lambda b: 0 < int.from_bytes(b, "big") < EC.N)).hex(),
                        "height": draw(st.one_of(st.integers(17, 499999999), st.sampled_from(
                            [17, 127, 128, 255, 256, 32767, 32768, 65535, 65536, 8388607, 8388608, 499999999]))),
                        "amount": draw(st.integers(1, 10 ** 12)), "pos": draw(st.integers(0, 3)),
                        "at": draw(st.integers(0, 60)), "copies": draw(st.sampled_from([1, 1, 1, 2]))}
            if draw(st.integers(0, 2)) == 0:
                inputs = []
        return {"accounts": accounts, "inputs": inputs, "outputs": outputs, "timelock": timelock,
                # what the daemon's publish / update flows do between create() (which has read sizes) and sign():
                # an output's script is regenerated in place (Output.sign by a channel, updated claim payload)
                "reader_during_sign": draw(st.sampled_from([False, False, True])),
                "post_read_edit": draw(st.sampled_from([None, None, {"out": draw(st.integers(0, 3)),
                                                                     "extra": draw(st.binary(min_size=1, max_size=40)).hex()}])),
                "version": draw(st.sampled_from([1, 2, 0xFFFFFFFF])) if special else 1,
                "locktime": draw(st.sampled_from([1, 499999999, 500000000, 0xFFFFFFFF])) if special else 0}
    return build()


def _account_node(acc):
    return R.master(bytes.fromhex(acc["seed"]))


def _owner_node(case, spec):
    acc = case["accounts"][spec["acct"]]
    node = _account_node(acc)
    if acc["single"]:
        return node
    return node.child(spec["chain"]).child(spec["n"] % (RG if spec["chain"] == 0 else CG))


def _make_output(lb, spec, h160):
    Output = lb["Output"]
    kind = spec["kind"]
    payload = bytes.fromhex(spec.get("payload", ""))
    if kind == "p2pkh":
        return Output.pay_pubkey_hash(spec["amount"], h160)
    if kind == "p2sh":
        return Output.pay_script_hash(spec["amount"], h160)
    if kind == "claim":
        return Output.pay_claim_name_pubkey_hash(spec["amount"], spec["name"], payload, h160)
    if kind == "update":
        return Output.pay_update_claim_pubkey_hash(spec["amount"], spec["name"], spec["claim_id"], payload, h160)
    if kind == "support":
        return Output.pay_support_pubkey_hash(spec["amount"], spec["name"], spec.get("claim_id", "00" * 20), h160)
    if kind == "support_data":
        return Output.pay_support_data_pubkey_hash(spec["amount"], spec["name"], spec["claim_id"], payload, h160)
    raise AssertionError(kind)


async def _sign_flow(case):
    lb = _lbry()
    Transaction, Input, Output = lb["Transaction"], lb["Input"], lb["Output"]
    ledger = lb["Ledger"]({"db": lb["Database"](":memory:"), "headers": lb["Headers"](":memory:")})
    await ledger.db.open()
    try:
        wallet = lb["Wallet"]()
        accounts = []
        for acc in case["accounts"]:
            node = _account_node(acc)
            gen = {"name": "single-address"} if acc["single"] else {
                "name": "deterministic-chain", "receiving": {"gap": RG, "maximum_uses_per_address": 1},
                "change": {"gap": CG, "maximum_uses_per_address": 1}}
            account = lb["Account"].from_dict(ledger, wallet, {
                "name": "a", "private_key": node.xprv(), "public_key": node.xpub(), "address_generator": gen,
                "modified_on": 1})
            await account.ensure_address_gap()
            accounts.append(account)
        funding_raws = []
        inputs = []
        layout = []
        dummy = Transaction().add_outputs([Output.pay_pubkey_hash(1000, b"\x11" * 20)]).outputs[0]
        for i, spec in enumerate(case["inputs"]):
            h160 = _owner_node(case, spec).identifier
            txo = _make_output(lb, spec, h160)
            fillers = [Output.pay_pubkey_hash(7 + k, bytes([k + 1]) * 20) for k in range(spec["pos"])]
            funding = Transaction(locktime=i).add_inputs([Input.spend(dummy)]).add_outputs(fillers + [txo])
            funding_raws.append(funding.raw)
            txi = Input.spend(txo)
            txi.sequence = spec["sequence"]
            inputs.append(txi)
            layout.append(("std", i))
        outputs = [_make_output(lb, o, bytes.fromhex(o["h160"])) for o in case["outputs"]]
        locktime = case["locktime"]
        extra_keys = None
        tl = case.get("timelock")
        tl_info = []
        if tl:
            secret = bytes.fromhex(tl["secret"])
            pk = lb["PrivateKey"].from_bytes(ledger, secret)
            extra_keys = {pk.address: pk}
            pub33 = EC.pubkey_of(int.from_bytes(secret, "big"))
            for c in range(tl["copies"]):
                # the redeem script is handed over by whoever locked the funds: built by the reference, as bytes
                redeem = SH.timelock_redeem_script(tl["height"] + c, SH.hash160(pub33))
                txo = Output.pay_script_hash(tl["amount"], SH.hash160(redeem))
                fillers = [Output.pay_pubkey_hash(9 + k, bytes([k + 7]) * 20) for k in range(tl["pos"])]
                funding = Transaction(locktime=1000 + c).add_inputs([Input.spend(dummy)]).add_outputs(fillers + [txo])
                txi = Input.spend_time_lock(txo, redeem)
                txi.sequence = 0xFFFFFFFE            # as Transaction.spend_time_lock does
                at = min(tl["at"], len(inputs))
                inputs.insert(at, txi)
                layout.insert(at, ("tl", funding.raw.hex(), redeem.hex(), pub33.hex()))
            locktime = tl["height"] + tl["copies"] - 1
        tx = Transaction(version=case["version"], locktime=locktime).add_inputs(inputs).add_outputs(outputs)
        _ = tx.size, tx.id         # Transaction.create() looks at sizes / ids before signing: caches are warm
        edit = case.get("post_read_edit")
        if edit:
            txo = outputs[edit["out"] % len(outputs)]
            values = txo.script.values
            if "claim" in values and isinstance(values["claim"], bytes):
                values["claim"] = values["claim"] + bytes.fromhex(edit["extra"])
            elif "pubkey_hash" in values:
                values["pubkey_hash"] = hashlib.sha256(bytes.fromhex(edit["extra"])).digest()[:20]
            elif "script_hash" in values:
                values["script_hash"] = hashlib.sha256(bytes.fromhex(edit["extra"])).digest()[:20]
            txo.script.generate()
        if case.get("reader_during_sign"):
            # another coroutine looks at the transaction (id for a log line, size for a fee preview) while sign() is suspended
            # in its key lookups: what sign() returns must still be the signed serialisation
            state = {"stop": False, "reads": 0}

            async def reader():
                while not state["stop"]:
                    _ = tx.raw, tx.id, tx.size
                    state["reads"] += 1
                    await asyncio.sleep(0)
            rt = asyncio.ensure_future(reader())
            try:
                await tx.sign(accounts, extra_keys)
            finally:
                state["stop"] = True
                await rt
        else:
            await tx.sign(accounts, extra_keys)
        return tx.raw, funding_raws, layout
    finally:
        await ledger.db.close()


def run_tx(case):
    from vlib import aio
    out = Out()
    raw, funding_raws, layout = aio.run(_sign_flow(case))
    try:
        tx = SH.parse_tx(raw)
    except SH.TxParseError as e:
        out.violate("signed-tx-unparsable", "%r raw=%s" % (e, raw.hex()[:200]))
        return out
    n = len(layout)
    out.label("inputs_%s" % (n if n <= 8 else "9-20" if n <= 20 else "21-60"), "accounts_%d" % len(case["accounts"]))
    if not out.check(len(tx.inputs) == n, "signed-tx-input-count", "%d vs %d" % (len(tx.inputs), n)):
        return out
    if case["version"] != 1 or case["locktime"] != 0:
        out.label("nondefault_version_or_locktime")
    if case.get("timelock"):
        out.label("timelock_alone" if not case["inputs"] else "timelock_mixed")

    def spent_of(i):
        """(funding tx, position, kind) of what input i is meant to spend"""
        if layout[i][0] == "std":
            spec = case["inputs"][layout[i][1]]
            return SH.parse_tx(funding_raws[layout[i][1]]), spec["pos"], spec["kind"]
        return SH.parse_tx(bytes.fromhex(layout[i][1])), case["timelock"]["pos"], "timelock"

    keys = set()
    for i in range(n):
        ftx, pos, kind = spent_of(i)
        spent = ftx.outputs[pos].script
        out.label("spent_" + kind)
        if len(spent) >= 253:
            out.label("scriptcode_ge_253")
        txin = tx.inputs[i]
        # the input must point at the output it is meant to spend (that defines "the spent output"); version,
        # locktime and sequence as serialised are simply part of "that transaction" (their fidelity is C05's business)
        if not out.check(txin.prev_hash == ftx.txid_hash and txin.prev_index == pos,
                         "input:outpoint-differs:" + kind,
                         "input %d: %s:%d" % (i, txin.prev_hash.hex(), txin.prev_index)):
            continue
        if kind == "timelock":
            redeem, owner_pub = bytes.fromhex(layout[i][2]), bytes.fromhex(layout[i][3])
            ok, why, info = SH.verify_p2sh_timelock_input(tx, i, spent)
            if ok and info["redeem"] != redeem:
                ok, why = False, "redeem-script-altered"
        else:
            spec = case["inputs"][layout[i][1]]
            if spec["sequence"] != 0xFFFFFFFF:
                out.label("nondefault_sequence")
            owner_pub = _owner_node(case, spec).pub
            ok, why, info = SH.verify_input(tx, i, spent)
        if not ok:
            out.violate("input:%s:%s" % (why, kind), "input %d of %d, spent script %s, scriptSig %s, digest %s" % (
                i, n, spent.hex()[:120], txin.script.hex(), info.get("digest", b"").hex()))
            continue
        pub = SH.parse_pushes(txin.script)[1][1]
        keys.add(pub)
        out.check(pub == owner_pub, "input:pubkey-not-the-owner-key:" + kind, "input %d" % i)
        # second opinion on the same digest
        r, s = EC.parse_der_signature(SH.parse_pushes(txin.script)[0][1][:-1])
        if not ref_verify(pub, info["digest"], r, s):
            raise AssertionError("verify_input passed but ref_verify failed")
        if not info["low_s"]:
            out.label("high_s")      # not a violation, see ASSUMPTIONS
        out.label("siglen_%d" % info["sig_len"])
        # sensitivity of the oracle itself: the signature must not verify for a neighbouring input's digest
        if n > 1:
            j = (i + 1) % n
            fj, pj, kj = spent_of(j)
            code_j = bytes.fromhex(layout[j][2]) if kj == "timelock" else fj.outputs[pj].script
            if EC.verify_rs(EC.parse_point(pub), SH.sighash_all(tx, j, code_j), r, s):
                out.violate("input:signature-valid-for-other-input", "input %d's signature verifies for input %d" % (i, j))
    out.label("distinct_keys_%s" % (len(keys) if len(keys) <= 3 else "4+"))
    out.nontrivial = (n >= 2 and len(keys) >= 2) or bool(case.get("timelock"))
    return out


# ------------------------------------------------------------------------------------------------------------
# claims, channels (shared by parts 2 and 3)
# ------------------------------------------------------------------------------------------------------------

TEXT = st.text(st.characters(blacklist_categories=("Cs",)), min_size=0, max_size=30)
HASH20 = st.binary(min_size=20, max_size=20).map(lambda b: b.hex())


def claim_spec_strategy():
    common = {"title": st.one_of(st.none(), TEXT), "description": st.one_of(st.none(), TEXT),
              "tags": st.lists(st.text("abcdefghij klmnop", min_size=1, max_size=8), max_size=3),
              "thumbnail": st.one_of(st.none(), st.just("https://x.test/t.png"))}
    stream = dict(common, kind=st.just("stream"),
                  sd_hash=st.one_of(st.none(), st.binary(min_size=48, max_size=48).map(lambda b: b.hex())),
                  file_name=st.one_of(st.none(), st.just("a.mp4"), TEXT),
                  size=st.one_of(st.none(), st.integers(0, 2 ** 64 - 1)),
                  media_type=st.one_of(st.none(), st.sampled_from(["video/mp4", "application/octet-stream"])),
                  author=st.one_of(st.none(), TEXT), license=st.one_of(st.none(), st.just("CC")),
                  release_time=st.one_of(st.none(), st.integers(-2 ** 63, 2 ** 63 - 1), st.integers(0, 2 ** 31)),
                  fee=st.one_of(st.none(), st.tuples(st.integers(0, 3), st.integers(0, 2 ** 64 - 1)).map(list)),
                  video=st.one_of(st.none(), st.tuples(st.integers(0, 5000), st.integers(0, 5000),
                                                       st.integers(0, 2 ** 32 - 1)).map(list)))
    repost = dict(common, kind=st.just("repost"), ref=HASH20)
    collection = dict(common, kind=st.just("collection"), refs=st.lists(HASH20, max_size=4))
    empty = {"kind": st.just("empty")}
    support = {"kind": st.just("support"), "comment": st.one_of(st.none(), TEXT),
               "emoji": st.one_of(st.none(), st.sampled_from(["\U0001F600", "x", ""]))}
    return st.one_of(st.fixed_dictionaries(stream), st.fixed_dictionaries(stream), st.fixed_dictionaries(repost),
                     st.fixed_dictionaries(collection), st.fixed_dictionaries(empty), st.fixed_dictionaries(support))


def channel_spec_strategy():
    return st.fixed_dictionaries({
        "seed": st.binary(min_size=16, max_size=32).map(lambda b: b.hex()),
        "n": st.integers(0, 3),
        "name": st.text("abcdefghijklmnopqrstuvwxyz", min_size=1, max_size=10).map(lambda s: "@" + s),
        "title": st.one_of(st.none(), TEXT),
        "email": st.one_of(st.none(), st.just("a@b.c")),
        "pos": st.integers(0, 2),
        "update": st.booleans(),
        "claim_id": HASH20,
        "locktime": st.integers(0, 1000),
    })


def fill_message(msg, spec):
    """generated metadata -> v2 protobuf message (input construction only)"""
    kind = spec["kind"]
    if kind == "support":
        if spec.get("comment") is not None:
            msg.comment = spec["comment"]
        if spec.get("emoji") is not None:
            msg.emoji = spec["emoji"]
        return
    if kind == "stream":
        msg.stream.SetInParent()
        s = msg.stream
        if spec.get("sd_hash") is not None:
            s.source.sd_hash = bytes.fromhex(spec["sd_hash"])
        if spec.get("file_name") is not None:
            s.source.name = spec["file_name"]
        if spec.get("size") is not None:
            s.source.size = spec["size"]
        if spec.get("media_type") is not None:
            s.source.media_type = spec["media_type"]
        if spec.get("author") is not None:
            s.author = spec["author"]
        if spec.get("license") is not None:
            s.license = spec["license"]
        if spec.get("release_time") is not None:
            s.release_time = spec["release_time"]
        if spec.get("fee") is not None:
            s.fee.currency = spec["fee"][0]
            s.fee.amount = spec["fee"][1]
        if spec.get("video") is not None:
            s.video.width, s.video.height, s.video.duration = spec["video"]
    elif kind == "repost":
        msg.repost.claim_hash = bytes.fromhex(spec["ref"])
    elif kind == "collection":
        msg.collection.SetInParent()
        for ref in spec["refs"]:
            msg.collection.claim_references.add().claim_hash = bytes.fromhex(ref)
    elif kind == "empty":
        return
    if spec.get("title") is not None:
        msg.title = spec["title"]
    if spec.get("description") is not None:
        msg.description = spec["description"]
    for tag in spec.get("tags", ()):
        msg.tags.append(tag)
    if spec.get("thumbnail") is not None:
        msg.thumbnail.url = spec["thumbnail"]


def channel_secret(spec):
    """reference derivation of the channel key: m/2/n of the seed (KeyPath.CHANNEL = 2, as the wallet does)"""
    return R.derive(R.master(bytes.fromhex(spec["seed"])), [2, spec["n"]])


def build_channel(lb, spec, dummy_input):
    """lbry channel output with its deterministic private key, inside its own transaction"""
    Output, Transaction = lb["Output"], lb["Transaction"]
    claim = lb["Claim"]()
    claim.channel        # noqa: selects the channel type
    if spec.get("title") is not None:
        claim.message.title = spec["title"]
    if spec.get("email") is not None:
        claim.message.channel.email = spec["email"]
    if spec["update"]:
        txo = Output.pay_update_claim_pubkey_hash(1000, spec["name"], spec["claim_id"], claim, b"\x22" * 20)
    else:
        txo = Output.pay_claim_name_pubkey_hash(1000, spec["name"], claim, b"\x22" * 20)
    key = lb["PrivateKey"].from_seed(lb["Ledger"], bytes.fromhex(spec["seed"])).child(lb["KeyPath"].CHANNEL).child(spec["n"])
    txo.set_channel_private_key(key)
    fillers = [Output.pay_pubkey_hash(5 + k, bytes([k + 3]) * 20) for k in range(spec["pos"])]
    Transaction(locktime=spec["locktime"]).add_inputs([dummy_input()]).add_outputs(fillers + [txo])
    return txo


def mutation_strategy(regions):
    return st.lists(st.fixed_dictionaries({"where": st.sampled_from(regions), "bit": st.integers(0, 10 ** 6)}),
                    min_size=2, max_size=10)


V2_REGIONS = ["version", "channel_hash", "signature", "signature", "message", "message", "message", "first_txid",
              "first_nout", "channel_pubkey"]


@st.composite
def channel_case(draw):
    signed = draw(claim_spec_strategy())
    return {
        "channel": draw(channel_spec_strategy()),
        "other": draw(channel_spec_strategy()),
        "signed": signed,
        "script": "support" if signed["kind"] == "support" else draw(st.sampled_from(["claim", "claim", "update"])),
        "name": draw(st.text("abcdefghijklmnopqrstuvwxyz-", min_size=1, max_size=12)),
        "claim_id": draw(HASH20),
        "out_pos": draw(st.integers(0, 2)),
        "n_inputs": draw(st.integers(1, 3)),
        "input_salt": draw(st.integers(0, 10 ** 6)),
        "mutations": draw(mutation_strategy(V2_REGIONS)),
        "sweep": draw(st.integers(0, 14)) == 0,
        "field_edit": draw(st.sampled_from(["title", "tag", "description", "type_specific", "clear"])),
    }


def flip(raw, offset, length, bit):
    """flip bit `bit mod (8*length)` of raw[offset:offset+length]"""
    if length <= 0:
        return None
    b = bit % (8 * length)
    pos = offset + b // 8
    return raw[:pos] + bytes([raw[pos] ^ (1 << (b % 8))]) + raw[pos + 1:]


def lbry_validates(lb, signed_raw, out_pos, chan_raw, chan_pos):
    """-> (True/False, None) or (None, exception type name): the SDK's verdict after parsing raw bytes"""
    try:
        txo = lb["Transaction"](signed_raw).outputs[out_pos]
        chan = lb["Transaction"](chan_raw).outputs[chan_pos]
        return bool(txo.is_signed_by(chan, _ledger())), None
    except Exception as e:  # any failure to decode / verify = does not validate
        return None, type(e).__name__


def same_message(scheme, orig_facts, mutated_raw, out_pos):
    """True when the mutated transaction still spells the same signed content (decoded message, signature, channel
    hash, first input / address): the don't-care class."""
    try:
        if scheme == "v2":
            facts = ref_signature_facts(mutated_raw, out_pos)
            if facts["scheme"] != "v2":
                return False
            from lbry.schema.types.v2.claim_pb2 import Claim as ClaimMessage
            from lbry.schema.types.v2.support_pb2 import Support as SupportMessage
            stx = SH.parse_tx(mutated_raw)
            kind = SH.claim_script_parts(stx.outputs[out_pos].script)["kind"]
            cls = SupportMessage if kind == "support_data" else ClaimMessage
            a, b = cls(), cls()
            a.ParseFromString(orig_facts["message"])
            b.ParseFromString(facts["message"])
            same = a.SerializeToString() == b.SerializeToString()
            return same and facts["sig"] == orig_facts["sig"] and facts["channel_hash"] == orig_facts["channel_hash"] \
                and _outpoint(mutated_raw) == orig_facts["outpoint"]
        # v1: what the old scheme commits to is (claim without publisherSignature, certificate id, address) and the
        # signature value; Signature.version / signatureType are an unsigned envelope (old lbryschema did not hash
        # them either).  Decode the way a protobuf consumer does (last value wins, wrong wire types are unknown fields).
        from lbry.schema.types.v1.legacy_claim_pb2 import Claim as OldClaim
        stx = SH.parse_tx(mutated_raw)
        txo = stx.outputs[out_pos]
        payload = SH.claim_script_parts(txo.script)["payload"]
        old = OldClaim()
        old.ParseFromString(payload)
        if not old.HasField("publisherSignature"):
            return False
        sig, cert_id = bytes(old.publisherSignature.signature), bytes(old.publisherSignature.certificateId)
        old.ClearField("publisherSignature")
        unsigned = old.SerializeToString()
        ref = OldClaim()
        ref.ParseFromString(orig_facts["message"])
        return unsigned == ref.SerializeToString() and sig == orig_facts["sig"] and \
            cert_id[::-1] == orig_facts["channel_hash"] and _paid_hash(txo.script) == orig_facts["h160"]
    except Exception:
        return False


def _paid_hash(script):
    """the 20 bytes a claim script pays to: pubkey hash, or script hash for a pay-to-script-hash tail"""
    h = SH.p2pkh_hash_of(script)
    if h is not None:
        return h
    tail = bytes(script[-23:])
    if len(tail) == 23 and tail[:2] == b"\xa9\x14" and tail[-1:] == b"\x87":
        return tail[2:22]
    return None


def _outpoint(raw):
    return SH.parse_tx(raw).inputs[0].outpoint


def run_mutations(out, lb, case, signed_raw, out_pos, chan_raw, chan_pos, chan_pub, scheme, mutations, sweep):
    facts = ref_signature_facts(signed_raw, out_pos)
    facts["outpoint"] = _outpoint(signed_raw)
    regions = dict(facts["regions"])
    k = chan_raw.find(chan_pub)
    chan_regions = {}
    if k >= 0:
        chan_regions["channel_pubkey"] = (k, 33)
    else:
        unc = EC.ser_uncompressed(EC.parse_point(chan_pub))
        k = chan_raw.find(unc)
        if k >= 0:
            chan_regions["channel_pubkey"] = (k, 65)
    todo = []
    for m in mutations:
        todo.append((m["where"], m["bit"], True))
    if sweep:
        off, ln = regions["payload"]
        if ln <= (sweep if isinstance(sweep, int) and sweep > 1 else 200):
            todo += [("payload", b, False) for b in range(8 * ln)]
            out.label("full_payload_sweep")
    count = 0
    for where, bit, do_label in todo:
        if where in chan_regions:
            off, ln = chan_regions[where]
            mutated_chan = flip(chan_raw, off, ln, bit)
            verdict, exc = lbry_validates(lb, signed_raw, out_pos, mutated_chan, chan_pos)
            mutated = None
        elif where in regions:
            off, ln = regions[where]
            mutated = flip(signed_raw, off, ln, bit)
            if mutated is None:
                out.label("mut_%s_empty_region" % where)
                continue
            verdict, exc = lbry_validates(lb, mutated, out_pos, chan_raw, chan_pos)
        else:
            continue
        count += 1
        if do_label:
            out.label("mut_" + where)
        if verdict is True:
            if mutated is not None and same_message(scheme, facts, mutated, out_pos):
                out.label("mut_same_message")
                continue
            if mutated is None:
                # a flipped channel key that still validates: only possible if it decodes to the same point
                try:
                    off, ln = chan_regions[where]
                    newkey = flip(chan_raw, off, ln, bit)[off:off + ln]
                    if len(newkey) == 65 and newkey[0] in (6, 7) and newkey[0] & 1 == newkey[64] & 1:
                        # ANSI X9.62 "hybrid" point encoding, accepted by libsecp256k1: the same point
                        newkey = b"\x04" + newkey[1:]
                    if EC.parse_point(newkey) == EC.parse_point(chan_pub):
                        out.label("mut_same_key_other_encoding")
                        continue
                except Exception:
                    pass
            out.violate("mutation-still-validates:%s:%s" % (scheme, where),
                        "bit %d of region %s flipped, is_signed_by still True; signed tx %s" % (
                            bit, where, signed_raw.hex()[:400]))
        elif verdict is False:
            out.label("mut_rejected_false")
        else:
            out.label("mut_raises_" + exc)
    return count


def _dummy_input_factory(lb, salt):
    Transaction, Input, Output = lb["Transaction"], lb["Input"], lb["Output"]
    counter = [0]

    def make():
        counter[0] += 1
        txo = Transaction(locktime=salt + counter[0]).add_outputs(
            [Output.pay_pubkey_hash(1000 + counter[0], b"\x33" * 20)]).outputs[0]
        return Input.spend(txo)
    return make


def run_channel(case):
    out = Out()
    lb = _lbry()
    Output, Transaction = lb["Output"], lb["Transaction"]
    dummy = _dummy_input_factory(lb, case["input_salt"])
    chan = build_channel(lb, case["channel"], dummy)
    other = build_channel(lb, case["other"], dummy)
    chan_raw, chan_pos = chan.tx_ref.tx.raw, case["channel"]["pos"]
    other_raw, other_pos = other.tx_ref.tx.raw, case["other"]["pos"]
    spec = case["signed"]
    kind = spec["kind"]
    out.label("signed_" + kind, "script_" + case["script"], "channel_" + ("update" if case["channel"]["update"] else "new"))
    if kind == "support":
        signable = lb["Support"]()
        fill_message(signable.message, spec)
        txo = Output.pay_support_data_pubkey_hash(2000, case["name"], case["claim_id"], signable, b"\x44" * 20)
    else:
        signable = lb["Claim"]()
        fill_message(signable.message, spec)
        if case["script"] == "update":
            txo = Output.pay_update_claim_pubkey_hash(2000, case["name"], case["claim_id"], signable, b"\x44" * 20)
        else:
            txo = Output.pay_claim_name_pubkey_hash(2000, case["name"], signable, b"\x44" * 20)
    fillers = [Output.pay_pubkey_hash(9 + k, bytes([k + 7]) * 20) for k in range(case["out_pos"])]
    tx = Transaction().add_inputs([dummy() for _ in range(case["n_inputs"])]).add_outputs(fillers + [txo])
    # the daemon's order of events: placeholder signature, then the real one once inputs are known
    txo.sign(chan, b"placeholder txid:nout")
    txo.sign(chan)
    tx._reset()      # what the following `await tx.sign(funding_accounts)` does first in every daemon flow
    signed_raw = tx.raw
    out_pos = case["out_pos"]

    # 1. reference verdict from raw bytes, with the channel key derived by the reference
    chan_node = channel_secret(case["channel"])
    ok, why = ref_validate_signed_claim(signed_raw, out_pos, chan_raw, chan_pos, expect_pub=chan_node.pub)
    if not ok:
        out.violate("channel-signature:reference-rejects:%s:%s" % (why, kind), "signed tx %s channel tx %s" % (
            signed_raw.hex()[:600], chan_raw.hex()[:300]))
        return out
    facts = ref_signature_facts(signed_raw, out_pos)
    if not EC.is_low_s(EC.parse_compact_signature(facts["sig"])[1]):
        out.label("high_s")
    # 2. the SDK validates its own signature, in memory and after a raw round trip
    try:
        mem = bool(txo.is_signed_by(chan, _ledger()))
    except Exception as e:
        out.violate("channel-signature:own-signature-raises:%s" % type(e).__name__, repr(e))
        return out
    out.check(mem, "channel-signature:own-signature-rejected:in-memory:" + kind, signed_raw.hex()[:400])
    verdict, exc = lbry_validates(lb, signed_raw, out_pos, chan_raw, chan_pos)
    if not out.check(verdict is True, "channel-signature:own-signature-rejected:after-raw-roundtrip:" + kind,
                     "verdict=%r exc=%r signed tx %s" % (verdict, exc, signed_raw.hex()[:400])):
        return out
    # 3. other channel
    other_node = channel_secret(case["other"])
    verdict, exc = lbry_validates(lb, signed_raw, out_pos, other_raw, other_pos)
    if other_node.pub == chan_node.pub:
        out.label("other_channel_same_key_validates" if verdict else "other_channel_same_key_rejected")
    else:
        out.label("other_channel")
        out.check(verdict is not True, "mutation-still-validates:v2:other-channel", "validated against a channel with "
                  "key %s, signed by %s" % (other_node.pub.hex(), chan_node.pub.hex()))
    # 4. swapped inputs (first input changes when the outpoints differ)
    if case["n_inputs"] >= 2:
        rtx = SH.parse_tx(signed_raw)
        ins = [(i.prev_hash, i.prev_index, i.script, i.sequence) for i in rtx.inputs]
        ins[0], ins[1] = ins[1], ins[0]
        swapped = SH.ser_tx(rtx.version, ins, [(o.amount, o.script) for o in rtx.outputs], rtx.locktime)
        if ins[0][:2] != ins[1][:2]:
            out.label("mut_swap_inputs")
            verdict, exc = lbry_validates(lb, swapped, out_pos, chan_raw, chan_pos)
            out.check(verdict is not True, "mutation-still-validates:v2:inputs-swapped", swapped.hex()[:300])
    # 5. bit flips
    n_mut = run_mutations(out, lb, case, signed_raw, out_pos, chan_raw, chan_pos, chan_node.pub, "v2",
                          case["mutations"], case["sweep"])
    # 6. in-memory field edit after signing (as upstream's test_fail_to_validate_altered_claim)
    before = signable.to_message_bytes()
    edit = case["field_edit"]
    m = signable.message
    if kind == "support":
        m.comment = m.comment + "x"
    elif edit == "title":
        m.title = m.title + "x"
    elif edit == "description":
        m.description = m.description + " "
    elif edit == "tag":
        m.tags.append("extra")
    elif edit == "clear":
        m.Clear()
    else:
        if kind == "stream":
            m.stream.source.size = (m.stream.source.size + 1) % 2 ** 64
        elif kind == "repost":
            m.repost.claim_hash = bytes(20) if m.repost.claim_hash != bytes(20) else b"\x01" * 20
        elif kind == "collection":
            m.collection.claim_references.add().claim_hash = b"\x05" * 20
        else:
            m.title = "t"
    if signable.to_message_bytes() != before:
        out.label("field_edit_" + edit)
        try:
            still = bool(txo.is_signed_by(chan, _ledger()))
        except Exception as e:
            still = False
            out.label("field_edit_raises_" + type(e).__name__)
        out.check(not still, "mutation-still-validates:v2:field-edit:" + edit, "kind=%s" % kind)
    else:
        out.label("field_edit_noop")
    # 7. signing again with the other channel invalidates the first channel's claim to it
    if True:
        txo.sign(other)
        try:
            v_other = bool(txo.is_signed_by(other, _ledger()))
            v_first = bool(txo.is_signed_by(chan, _ledger()))
        except Exception as e:
            out.violate("channel-signature:resign-raises:%s" % type(e).__name__, repr(e))
            return out
        out.check(v_other, "channel-signature:own-signature-rejected:resigned:" + kind, "")
        if other_node.pub != chan_node.pub:
            out.check(not v_first, "mutation-still-validates:v2:resigned-by-other-channel", "")
    out.nontrivial = n_mut >= 1
    return out


# ------------------------------------------------------------------------------------------------------------
# part 3: signatures made by earlier releases (reference signer) + real main-net examples
# ------------------------------------------------------------------------------------------------------------

V1_REGIONS = ["payload", "payload", "payload", "payload", "address", "channel_pubkey"]


@st.composite
def legacy_case(draw):
    scheme = draw(st.sampled_from(["v1", "v1", "v2"]))
    case = {
        "kind": "generated", "scheme": scheme,
        "secret": draw(st.one_of(st.integers(1, EC.N - 1), st.integers(1, 2 ** 64), st.integers(EC.N - 2 ** 32, EC.N - 1))),
        "high_s": draw(st.booleans()),
        "channel_form": draw(st.sampled_from(["v1_cert", "v2_der", "v2_compressed"] if scheme == "v1"
                                             else ["v2_der", "v2_der", "v2_compressed", "v1_cert"])),
        "chan_name": "@" + draw(st.text("abcdefghijklmnopqrstuvwxyz", min_size=1, max_size=10)),
        "chan_pos": draw(st.integers(0, 2)),
        "name": draw(st.text("abcdefghijklmnopqrstuvwxyz-", min_size=1, max_size=12)),
        "out_pos": draw(st.integers(0, 2)),
        "h160": draw(HASH20),
        "first_txid": draw(st.binary(min_size=32, max_size=32)).hex(),
        "first_nout": draw(st.one_of(st.integers(0, 5), st.integers(0, 2 ** 32 - 1))),
        "sweep": draw(st.integers(0, 14)) == 0,
        "pay": draw(st.sampled_from(["p2pkh", "p2pkh", "p2sh"])),
    }
    if scheme == "v1":
        case["meta"] = {
            "title": draw(TEXT), "description": draw(TEXT), "author": draw(TEXT), "license": draw(TEXT),
            "nsfw": draw(st.booleans()), "language": draw(st.sampled_from([0, 1])),
            "thumbnail": draw(st.one_of(st.none(), st.just("http://x/y.png"))),
            "license_url": draw(st.one_of(st.none(), st.just("http://l"))),
            "fee": draw(st.one_of(st.none(), st.tuples(st.sampled_from([1, 2, 3]), st.integers(0, 1000)).map(list))),
            "source": draw(st.binary(min_size=48, max_size=48)).hex(),
            "content_type": draw(st.sampled_from(["video/mp4", "application/octet-stream"])),
        }
        case["mutations"] = draw(mutation_strategy(V1_REGIONS))
    else:
        spec = draw(claim_spec_strategy().filter(lambda s: s["kind"] != "support"))
        case["signed"] = spec
        case["mutations"] = draw(mutation_strategy(V2_REGIONS))
    return case


def enum_real(tier, shard, nshards):
    for k, name in enumerate(sorted(SIGNED_CLAIM_EXAMPLES)):
        if k % nshards != shard:
            continue
        for m in range(0, 40 if tier == "quick" else 400):
            # sweep: True = every payload bit if the payload is <= 200 bytes; an int = that byte limit
            yield {"kind": "real", "name": name, "sweep": (260 if tier == "quick" else 2000) if m == 0 else False,
                   "mutations": [{"where": w, "bit": 7919 * m + 13 * j} for j, w in enumerate(
                       ["payload", "payload", "payload", "signature", "channel_hash", "message", "first_txid",
                        "first_nout", "address", "channel_pubkey", "version"])]}


def spki(pub_point):
    return PB.SPKI_SECP256K1_HEADER + EC.ser_uncompressed(pub_point)


def build_legacy_channel_payload(form, pub_point):
    if form == "v1_cert":
        cert = PB.varint_field(1, 1) + PB.varint_field(2, 3) + PB.bytes_field(4, spki(pub_point))
        return PB.varint_field(1, 1) + PB.varint_field(2, 2) + PB.bytes_field(4, cert)
    key = spki(pub_point) if form == "v2_der" else EC.ser_compressed(pub_point)
    return b"\x00" + PB.bytes_field(2, PB.bytes_field(1, key))


def build_v1_stream_payload(meta):
    """unsigned v1 (lbryschema 0.0.x) stream claim, canonical field order, via the reference wire writer"""
    md = PB.varint_field(1, 3) + PB.varint_field(2, meta["language"]) + PB.bytes_field(3, meta["title"].encode()) + \
        PB.bytes_field(4, meta["description"].encode()) + PB.bytes_field(5, meta["author"].encode()) + \
        PB.bytes_field(6, meta["license"].encode()) + PB.varint_field(7, 1 if meta["nsfw"] else 0)
    if meta["fee"] is not None:
        fee = PB.varint_field(1, 1) + PB.varint_field(2, meta["fee"][0]) + PB.bytes_field(3, b"\x55" + b"\x09" * 24) + \
            b"\x25" + struct.pack("<f", float(meta["fee"][1]))
        md += PB.bytes_field(8, fee)
    if meta["thumbnail"] is not None:
        md += PB.bytes_field(9, meta["thumbnail"].encode())
    if meta["license_url"] is not None:
        md += PB.bytes_field(11, meta["license_url"].encode())
    src = PB.varint_field(1, 1) + PB.varint_field(2, 1) + PB.bytes_field(3, bytes.fromhex(meta["source"])) + \
        PB.bytes_field(4, meta["content_type"].encode())
    stream = PB.varint_field(1, 1) + PB.bytes_field(2, md) + PB.bytes_field(3, src)
    return PB.varint_field(1, 1) + PB.varint_field(2, 1) + PB.bytes_field(3, stream)


def ref_sign(secret, digest, high_s):
    r, s = EC.sign_rs(secret, digest, low_s=True)
    if high_s:
        s = EC.N - s
    return r.to_bytes(32, "big") + s.to_bytes(32, "big")


def run_legacy(case):
    out = Out()
    lb = _lbry()
    if case["kind"] == "real":
        s_hex, c_hex = SIGNED_CLAIM_EXAMPLES[case["name"]]
        signed_raw, chan_raw = bytes.fromhex(s_hex), bytes.fromhex(c_hex)
        out_pos = chan_pos = 0
        scheme = ref_signature_facts(signed_raw, 0)["scheme"]
        chan_pub = channel_key_from_payload(ref_channel_id(chan_raw, 0)[1]["payload"])
        out.label("real_" + case["name"], "scheme_" + scheme)
        tag_class = "real:" + case["name"]
    else:
        scheme = case["scheme"]
        secret = case["secret"]
        point = EC.mul_g(secret)
        chan_pub = EC.ser_compressed(point)
        # channel transaction, built by the reference
        chan_payload = build_legacy_channel_payload(case["channel_form"], point)
        chan_outs = [(5 + k, SH.p2pkh_script(bytes([k + 3]) * 20)) for k in range(case["chan_pos"])]
        chan_outs.append((1000, SH.claim_name_script(case["chan_name"].encode(), chan_payload, b"\x22" * 20)))
        chan_raw = SH.ser_tx(1, [(b"\x77" * 32, 1, b"", 0xFFFFFFFF)], chan_outs, 0)
        chan_pos = case["chan_pos"]
        chan_id = SH.claim_id_hash(SH.dsha256(chan_raw), chan_pos)
        h160 = bytes.fromhex(case["h160"])
        first = (bytes.fromhex(case["first_txid"]), case["first_nout"], b"", 0xFFFFFFFF)
        p2sh = case.get("pay") == "p2sh"
        if scheme == "v1":
            unsigned = build_v1_stream_payload(case["meta"])
            addr = (SCRIPT_PREFIX if p2sh else PREFIX) + h160
            addr += B58.checksum(addr)
            cert_id = chan_id[::-1]
            sig = ref_sign(secret, hashlib.sha256(addr + unsigned + cert_id).digest(), case["high_s"])
            sigmsg = PB.varint_field(1, 1) + PB.varint_field(2, 3) + PB.bytes_field(3, sig) + PB.bytes_field(4, cert_id)
            payload = unsigned + PB.bytes_field(5, sigmsg)
        else:
            from lbry.schema.types.v2.claim_pb2 import Claim as ClaimMessage
            msg = ClaimMessage()
            fill_message(msg, case["signed"])
            message = msg.SerializeToString()
            outpoint = first[0] + struct.pack("<I", first[1])
            sig = ref_sign(secret, hashlib.sha256(outpoint + chan_id + message).digest(), case["high_s"])
            payload = b"\x01" + chan_id + sig + message
        outs = [(9 + k, SH.p2pkh_script(bytes([k + 7]) * 20)) for k in range(case["out_pos"])]
        if p2sh:
            outs.append((2000, b"\xb5" + SH.push(case["name"].encode()) + SH.push(payload) + b"\x6d\x75" + SH.p2sh_script(h160)))
            out.label("claim_pays_script_hash")
        else:
            outs.append((2000, SH.claim_name_script(case["name"].encode(), payload, h160)))
        signed_raw = SH.ser_tx(1, [first], outs, 0)
        out_pos = case["out_pos"]
        out.label("scheme_" + scheme, "channel_form_" + case["channel_form"], "high_s" if case["high_s"] else "low_s")
        tag_class = "%s:%s:%s" % (scheme, case["channel_form"], "high-s" if case["high_s"] else "low-s")
    ok, why = ref_validate_signed_claim(signed_raw, out_pos, chan_raw, chan_pos, expect_pub=chan_pub)
    if not ok:
        raise AssertionError("reference rejects its own legacy construction: " + why)
    verdict, exc = lbry_validates(lb, signed_raw, out_pos, chan_raw, chan_pos)
    if verdict is not True:
        out.violate("legacy-signature-rejected:" + tag_class, "verdict=%r exception=%r signed tx %s channel tx %s" % (
            verdict, exc, signed_raw.hex()[:500], chan_raw.hex()[:300]))
        return out
    regions = ref_signature_facts(signed_raw, out_pos)["regions"]
    muts = [m for m in case["mutations"] if m["where"] in regions or m["where"] == "channel_pubkey"]
    n_mut = run_mutations(out, lb, case, signed_raw, out_pos, chan_raw, chan_pos, chan_pub, scheme, muts, case["sweep"])
    out.nontrivial = n_mut >= 1
    if case.get("pay") != "p2sh":
        resign_parsed_claim(out, lb, signed_raw, out_pos, scheme, tag_class.split(":")[0])
    return out


RESIGN_CHANNEL = {"name": "@resign", "title": "t", "email": None, "update": False, "claim_id": None, "seed": "5a" * 32, "n": 3,
                  "pos": 1, "locktime": 7}


def resign_parsed_claim(out, lb, signed_raw, out_pos, scheme, cls):
    """history on one object: a claim parsed from the chain (possibly signed under an earlier release's scheme) is detached from
    its channel and signed by another channel of this wallet, the way a claim is moved between channels; the new signature
    must validate in memory and after a raw round trip, judged by the reference as well"""
    tx = lb["Transaction"](signed_raw)
    txo = tx.outputs[out_pos]
    if not txo.claim.is_signed:
        return
    new_chan = build_channel(lb, RESIGN_CHANNEL, _dummy_input_factory(lb, 424242))
    new_raw_chan, new_pos = new_chan.tx_ref.tx.raw, RESIGN_CHANNEL["pos"]
    txo.clear_signature()
    txo.sign(new_chan)
    tx._reset()
    resigned = tx.raw
    out.label("resigned_" + scheme)
    try:
        mem = bool(txo.is_signed_by(new_chan, _ledger()))
    except Exception as e:
        out.violate("resign:own-signature-raises:%s:%s" % (type(e).__name__, cls), repr(e)[:200])
        return
    out.check(mem, "resign:own-signature-rejected:in-memory:" + cls, "was signed under scheme %s; now %s" % (scheme, resigned.hex()[:400]))
    ok, why = ref_validate_signed_claim(resigned, out_pos, new_raw_chan, new_pos, expect_pub=channel_secret(RESIGN_CHANNEL).pub)
    out.check(ok, "resign:reference-rejects:%s:%s" % (why, cls), resigned.hex()[:400])
    verdict, exc = lbry_validates(lb, resigned, out_pos, new_raw_chan, new_pos)
    out.check(verdict is True, "resign:own-signature-rejected:after-raw-roundtrip:" + cls, "verdict=%r exc=%r" % (verdict, exc))


PARTS = [
    Part("tx_sign", tx_case, run_tx, 110, 600, quick_shards=3, thorough_shards=16,
         essential=("spent_p2pkh", "spent_claim", "spent_update", "spent_support", "spent_support_data",
                    "scriptcode_ge_253", "accounts_3", "inputs_8", "inputs_1", "distinct_keys_3", "timelock_alone",
                    "timelock_mixed")),
    Part("channel", lambda tier: channel_case(), run_channel, 140, 1200, quick_shards=3, thorough_shards=16,
         essential=("signed_stream", "signed_repost", "signed_collection", "signed_support", "signed_empty",
                    "script_update", "channel_update", "mut_message", "mut_signature", "mut_channel_hash",
                    "mut_first_txid", "mut_first_nout", "mut_version", "mut_channel_pubkey", "mut_swap_inputs",
                    "other_channel", "full_payload_sweep")),
    Part("legacy", lambda tier: legacy_case(), run_legacy, 120, 1200, quick_shards=2, thorough_shards=8,
         enumerate_cases=enum_real,
         essential=("scheme_v1", "scheme_v2", "high_s", "low_s", "channel_form_v1_cert", "channel_form_v2_der",
                    "channel_form_v2_compressed", "claim_pays_script_hash", "real_ytsync_v1_legacy", "real_python_ecdsa_signed_v2",
                    "real_ytsync_v2_der_channel_key", "mut_address", "mut_payload", "mut_signature",
                    "mut_channel_pubkey", "full_payload_sweep", "resigned_v1", "resigned_v2")),
]
