"""C05 -- transaction wire format and txid agree with the Bitcoin/LBRY encoding
(lbry/wallet/transaction.py, bcd_data_stream.py, hash.py).

Oracle: vlib/ref/btctx.py (independent encoder/decoder, BIP144, txid) and vlib/ref/script.py (expected script bytes),
never lbry's own serialiser.
"""
import hashlib
from types import SimpleNamespace

from hypothesis import strategies as st

from vlib.runner import Part, Out
from vlib.ref import btctx as R
from vlib.ref import script as S
from vlib import bytespec as B

PROPERTY_ID = "C05"
LEVEL = "exploration"
EXHAUSTIVE = False
RULE = ("built: a transaction assembled through the library API (Transaction(version, locktime).add_inputs/"
        "add_outputs; Input.spend of an output of a generated previous transaction, Input.spend_time_lock, "
        "Input(TXORef(TXRefImmutable.from_hash)) with InputScript.redeem_pubkey_hash / redeem_time_lock_script_hash / "
        "REDEEM_PUBKEY scripts, coinbase inputs with raw script bytes; Output.pay_pubkey_hash / pay_script_hash / "
        "pay_claim_name_pubkey_hash / pay_update_claim_pubkey_hash / pay_support_pubkey_hash / "
        "pay_support_data_pubkey_hash / add_purchase_data with bytes and with real Claim / Support / Purchase objects, "
        "and every other OutputScript template). version / locktime / sequence / prev index: 32 bit values from a "
        "boundary list u integers(0, 2^32-1); amounts: 64 bit boundary list u integers(0, 2^64-1); input and output "
        "counts 1..300 with 252/253/254/300 over-represented (1-4 generated prototypes are cycled, later cycles get "
        "derived hashes / indices / sequences / amounts; in 3/5 of the cases raw / id / size are read half way through "
        "the assembly); script lengths steered to 252/253/254/65535/65536/65537 and "
        "claim payload lengths to the push boundaries. segwit: BIP144 bytes produced by the reference encoder from "
        "generated inputs / outputs / witness stacks (item lengths incl. 0, 252, 253, 520, 65535, 65536; stacks of "
        "0..5 or 252..305 items; 1..300 inputs). corpus: 10 real LBRY main-net transactions from the upstream tests, the Bitcoin genesis coinbase and "
        "the BIP143 native P2WPKH example (legacy + BIP144 form). non-trivial = some compact-size length prefix "
        "(count, script length, witness item length) >= 253 or an output that is not plain P2PKH. distinct = distinct "
        "canonical JSON of the case.")
ASSUMPTIONS = [
    "the version field is compared as an unsigned 32 bit integer (lbry reads and writes it as uint32; same bits as "
    "Bitcoin's int32)",
    "0 inputs or 0 outputs are outside the quantifier (a legacy serialisation with 0 inputs is indistinguishable from "
    "the BIP144 marker)",
    "re-serialisation of a parsed transaction is observed as upstream does: tx._reset() then tx.raw; for BIP144 input "
    "lbry never re-emits witness data, so raw_sans_segwit (serialised from the parsed fields) is compared with the "
    "reference legacy encoding and tx.raw with the bytes given",
    "the content of Transaction.witnesses is not judged (the statement lists inputs, outputs, scripts, amounts, "
    "sequences and locktime); a wrong witness drain is visible through locktime / id",
    "Claim / Support / Purchase payload bytes are taken from bytes(obj) of lbry.schema (their encoding is property "
    "C16); everything around them comes from the reference encoders",
    "a null (all-zero) previous hash is generated only for coinbase inputs",
]

U32_EDGES = [0, 1, 2, 0x7f, 0x80, 0xff, 0x100, 0xfc, 0xfd, 0xfe, 0xfffe, 0xffff, 0x10000, 499999999, 500000000,
             0x7fffffff, 0x80000000, 0x80000001, 0xfffffffd, 0xfffffffe, 0xffffffff]
U64_EDGES = [0, 1, 999, 1000, 10 ** 8, 0xfc, 0xfd, 0xffff, 0x10000, 2 ** 31 - 1, 2 ** 31, 2 ** 32 - 1, 2 ** 32,
             21 * 10 ** 14, 2 ** 53, 2 ** 63 - 1, 2 ** 63, 2 ** 63 + 1, 2 ** 64 - 2, 2 ** 64 - 1]
COUNT_EDGES = [252, 253, 254, 300, 1, 2]
TOTAL_EDGES = [252, 253, 254, 65535, 65536, 65537]
NULL32 = b"\x00" * 32

u32 = st.one_of(st.sampled_from(U32_EDGES), st.integers(0, 2 ** 32 - 1))
u64 = st.one_of(st.sampled_from(U64_EDGES), st.integers(0, 2 ** 64 - 1), st.integers(0, 2 ** 40))
counts = st.one_of(st.integers(1, 4), st.integers(1, 4), st.integers(1, 4), st.integers(1, 4), st.integers(1, 4),
                   st.sampled_from(COUNT_EDGES), st.integers(1, 300))


_LIMITED = []


def _limit_memory():
    """safety net: a parser that loops on a garbage count (seen with mutants of the witness drain) must end in a
    MemoryError (reported as crash:MemoryError) instead of eating the machine.  Once per process."""
    if not _LIMITED:
        _LIMITED.append(1)
        try:
            import resource
            soft, hard = resource.getrlimit(resource.RLIMIT_AS)
            cap = 2 * 2 ** 30
            if soft == resource.RLIM_INFINITY or soft > cap:
                resource.setrlimit(resource.RLIMIT_AS, (cap, hard))
        except Exception:  # noqa
            pass


def _imports():
    _limit_memory()
    import lbry.wallet  # noqa: F401
    from lbry.wallet.transaction import Transaction, Input, Output, TXORef
    from lbry.wallet.hash import TXRefImmutable
    from lbry.wallet.script import InputScript, OutputScript
    from lbry.schema.claim import Claim
    from lbry.schema.support import Support
    from lbry.schema.purchase import Purchase
    return SimpleNamespace(Transaction=Transaction, Input=Input, Output=Output, TXORef=TXORef,
                           TXRefImmutable=TXRefImmutable, InputScript=InputScript, OutputScript=OutputScript,
                           Claim=Claim, Support=Support, Purchase=Purchase)


def hx(b, limit=40):
    b = bytes(b)
    return b.hex() if len(b) <= limit else "%s..(%d bytes)" % (b[:limit].hex(), len(b))


def derived_hash(seed, i, tag="h"):
    return hashlib.sha256(("%s:%d:%d" % (tag, seed, i)).encode()).digest()


def hash20(b):
    """any 20 byte commitment will do for the wire format (avoids depending on OpenSSL's ripemd160)"""
    return hashlib.sha256(b).digest()[:20]


def payload_len_for_total(total, overhead):
    """payload length L such that overhead + len(push(L bytes)) == total, or None"""
    for prefix in (1, 2, 3, 5):
        n = total - overhead - prefix
        if n >= 0 and {"direct": 1, "pd1": 2, "pd2": 3, "pd4": 5}[S.push_form(n)] == prefix:
            return n
    return None


# ------------------------------------------------------------------------------------------ strategies

def name_text():
    return st.one_of(st.text(max_size=10), st.text(alphabet="abcdefghijklmnopqrstuvwxyz0123456789-", min_size=1,
                                                   max_size=40), st.text(alphabet="aé☃-", min_size=70, max_size=80))


def payload():
    """claim / support payload: raw bytes (as the upstream tests pass) or a real schema object"""
    return st.one_of(B.data_spec().map(lambda s: {"b": s}), B.data_spec().map(lambda s: {"b": s}),
                     st.builds(lambda n, t: {"obj": {"n": n, "tag": t}},
                               st.one_of(st.integers(0, 300), st.sampled_from([60, 61, 62, 63, 64, 240, 241, 242, 243,
                                                                               244, 245, 246, 65500, 65520, 65540])),
                               st.text(max_size=6)))


@st.composite
def out_proto(draw):
    t = draw(st.sampled_from(["p2pkh", "p2pkh", "p2sh", "claim", "claim", "update", "support", "support_data",
                              "purchase", "claim_total", "claim_total", "tmpl"]))
    o = {"t": t, "amt": draw(u64), "h": draw(B.hash_spec(20))}
    if t in ("claim", "update", "support", "support_data"):
        o["name"] = draw(name_text())
    if t in ("update", "support", "support_data"):
        o["cid"] = draw(B.hash_spec(20))
    if t in ("claim", "update", "support_data"):
        o["payload"] = draw(payload())
    if t == "purchase":
        o["cid"] = draw(B.sized(st.just(20)))
    if t == "claim_total":
        o["name_len"] = draw(st.integers(0, 80))
        o["total"] = draw(st.sampled_from(TOTAL_EDGES))
    if t == "tmpl":
        o["prefix"] = draw(st.sampled_from([None, "claim", "update", "support", "support_data"]))
        o["tail"] = draw(st.sampled_from(["p2sh", "p2pkh"] if o["prefix"] else ["p2pk", "witness", "nulldata"]))
        o["nameb"] = draw(st.one_of(B.explicit(10), B.data_spec(big=False)))
        o["cid"] = draw(B.hash_spec(20))
        o["value"] = draw(B.data_spec())
        if o["prefix"] is None:
            o["h"] = draw(st.one_of(B.hash_spec(33), B.hash_spec(32), B.data_spec(big=False)))
    return o


@st.composite
def in_proto(draw):
    k = draw(st.sampled_from(["spend", "spend", "ref", "ref", "ref", "coinbase", "spend_tl"]))
    i = {"k": k, "seq": draw(u32)}
    if k == "spend":
        i.update(pv=draw(u32), pl=draw(u32), pn=draw(st.integers(1, 3)), pi=draw(st.integers(0, 2)), amt=draw(u64),
                 h=draw(B.hash_spec(20)))
    elif k == "spend_tl":
        i.update(pl=draw(u32), amt=draw(u64), height=draw(st.one_of(st.integers(1, 2 ** 32), st.sampled_from(
            [1, 16, 17, 127, 128, 255, 256, 32767, 32768, 717738, 8388607, 8388608, 2 ** 31 - 1, 2 ** 31]))),
            pkh=draw(B.sized(st.just(20))))
    elif k == "coinbase":
        i.update(pos=draw(st.one_of(st.just(0xffffffff), u32)),
                 b=draw(st.one_of(B.explicit(40, 2), B.sized(st.sampled_from([2, 100, 252, 253, 254, 65535, 65536])))))
    else:
        i.update(hash=draw(st.binary(min_size=32, max_size=32).filter(lambda b: b != NULL32)).hex(), pos=draw(u32))
        t = draw(st.sampled_from(["pubkey_hash", "pubkey_hash", "pubkey_hash_total", "timelock", "timelock_source",
                                  "pubkey", "multisig"]))
        sc = {"t": t}
        if t == "multisig":
            # the one library factory whose redeem script crosses the 75/76 and 252/253 byte push boundaries
            sc["nsig"] = draw(st.integers(2, 3))
            sc["npub"] = draw(st.integers(2, 8))
            sc["publen"] = draw(st.sampled_from([33, 33, 65]))
            sc["siglen"] = draw(st.sampled_from([71, 72, 73]))
        elif t == "pubkey_hash_total":
            sc["total"] = draw(st.sampled_from(TOTAL_EDGES))
            sc["pub"] = draw(B.sized(st.just(33)))
        else:
            sc["sig"] = draw(st.one_of(B.sized(st.sampled_from([71, 72, 73])), B.explicit(80), B.data_spec(big=False)))
            if t != "pubkey":
                sc["pub"] = draw(st.one_of(B.sized(st.sampled_from([33, 65])), B.explicit(66)))
            if "timelock" in t:
                sc["height"] = draw(st.one_of(st.integers(1, 2 ** 32), st.sampled_from(
                    [1, 127, 128, 255, 256, 32767, 32768, 717738, 2 ** 31 - 1, 2 ** 31])))
                sc["pkh"] = draw(B.sized(st.just(20)))
        i["script"] = sc
    return i


@st.composite
def built_case(draw):
    return {"version": draw(u32), "locktime": draw(u32), "seed": draw(st.integers(0, 2 ** 16)),
            "n_in": draw(counts), "ins": draw(st.lists(in_proto(), min_size=1, max_size=4)),
            "n_out": draw(counts), "outs": draw(st.lists(out_proto(), min_size=1, max_size=4)),
            # read raw / id / size half way through the assembly (as Transaction.create does for fee estimation)
            "touch": draw(st.sampled_from(["no", "no", "raw", "id", "size"])),
            "parent_edit": draw(st.booleans()), "edit_output_after_read": draw(st.sampled_from([False, False, True]))}


# ------------------------------------------------------------------------------------- building (lbry + ref)

def shrink_spec(spec, cycle):
    """big payloads only appear in the first cycle of a prototype, later copies are small (bounded case cost)"""
    if cycle and B.spec_len(spec) > 600:
        return {"n": B.spec_len(spec) % 97, "s": spec.get("s", 0) + cycle}
    return spec


def mk_payload(L, p, kind, cycle):
    """-> (value passed to lbry, expected bytes)"""
    if "b" in p:
        b = B.expand(shrink_spec(p["b"], cycle))
        return b, b
    n = p["obj"]["n"] if not (cycle and p["obj"]["n"] > 600) else p["obj"]["n"] % 97
    if kind == "support":
        obj = L.Support()
        obj.comment = p["obj"]["tag"] + "c" * n
    else:
        obj = L.Claim()
        obj.stream.title = p["obj"]["tag"] + "t" * n
    return obj, bytes(obj)


def build_output(L, o, cycle, idx):
    """-> (lbry Output, expected script bytes, expected amount, expected template name, label)"""
    O, OS = L.Output, L.OutputScript
    t = o["t"]
    amt = o["amt"] if cycle == 0 else (o["amt"] + idx * 0x0101010101) % 2 ** 64
    h = B.expand(o["h"])
    if t == "p2pkh":
        return O.pay_pubkey_hash(amt, h), S.build_output(None, "p2pkh", {"hash": h}), amt, "pay_pubkey_hash", t
    if t == "p2sh":
        return O.pay_script_hash(amt, h), S.build_output(None, "p2sh", {"hash": h}), amt, "pay_script_hash", t
    if t == "purchase":
        cid = B.expand(o["cid"])
        txo = O.add_purchase_data(L.Purchase(cid[::-1].hex()))
        data = b"P\x0a\x14" + cid
        return txo, S.build_output(None, "nulldata", {"hash": data}), 0, "return_data", t
    if t == "claim_total":
        name = "n" * o["name_len"]
        overhead = 1 + len(S.push(name.encode())) + 2 + 25
        n = payload_len_for_total(o["total"] if cycle == 0 else 252 + (idx % 3), overhead)
        if n is None:
            n = 10
        val = B.expand({"n": n, "s": idx})
        exp = S.build_output("claim", "p2pkh", {"name": name.encode(), "value": val, "hash": b"\x07" * 20})
        return (O.pay_claim_name_pubkey_hash(amt, name, val, b"\x07" * 20), exp, amt, "claim_name+pay_pubkey_hash",
                "claim")
    if t == "tmpl":
        from checks.c15_script import lbry_template, lbry_values, template_name
        SL = SimpleNamespace(OutputScript=OS)
        v = {"hash": h, "name": B.expand(o["nameb"]), "claim_id": B.expand(o["cid"]),
             "value": B.expand(shrink_spec(o["value"], cycle))}
        script = OS(template=lbry_template(SL, o["prefix"], o["tail"]), values=lbry_values(o["prefix"], o["tail"], v))
        return (O(amt, script), S.build_output(o["prefix"], o["tail"], v), amt, template_name(o["prefix"], o["tail"]),
                "tmpl:%s+%s" % (o["prefix"] or "plain", o["tail"]))
    name = o["name"]
    nb = name.encode()
    if t == "support":
        cid = B.expand(o["cid"])
        return (O.pay_support_pubkey_hash(amt, name, cid[::-1].hex(), h),
                S.build_output("support", "p2pkh", {"name": nb, "claim_id": cid, "hash": h}), amt,
                "support_claim+pay_pubkey_hash", t)
    if t == "claim":
        val, vb = mk_payload(L, o["payload"], "claim", cycle)
        return (O.pay_claim_name_pubkey_hash(amt, name, val, h),
                S.build_output("claim", "p2pkh", {"name": nb, "value": vb, "hash": h}), amt,
                "claim_name+pay_pubkey_hash", t + (":obj" if "obj" in o["payload"] else ""))
    cid = B.expand(o["cid"])
    if t == "update":
        val, vb = mk_payload(L, o["payload"], "claim", cycle)
        return (O.pay_update_claim_pubkey_hash(amt, name, cid[::-1].hex(), val, h),
                S.build_output("update", "p2pkh", {"name": nb, "claim_id": cid, "value": vb, "hash": h}), amt,
                "update_claim+pay_pubkey_hash", t + (":obj" if "obj" in o["payload"] else ""))
    val, vb = mk_payload(L, o["payload"], "support", cycle)
    return (O.pay_support_data_pubkey_hash(amt, name, cid[::-1].hex(), val, h),
            S.build_output("support_data", "p2pkh", {"name": nb, "claim_id": cid, "value": vb, "hash": h}), amt,
            "support_claim+data+pay_pubkey_hash", "support_data" + (":obj" if "obj" in o["payload"] else ""))


PARENT_EDITORS = {}


def build_input(L, p, cycle, idx, seed):
    """-> (lbry Input, expected ref TxIn, expected input template name or None, label)"""
    I, IS = L.Input, L.InputScript
    k = p["k"]
    seq = p["seq"] if cycle == 0 else (p["seq"] ^ (idx * 2654435761)) % 2 ** 32
    if k == "spend":
        pl = (p["pl"] + idx) % 2 ** 32
        hashes = [B.expand(p["h"]) if j == 0 else derived_hash(seed, j, "pk")[:20] for j in range(p["pn"])]
        prev = L.Transaction(version=p["pv"], locktime=pl).add_outputs(
            [L.Output.pay_pubkey_hash((p["amt"] + j) % 2 ** 64, hashes[j]) for j in range(p["pn"])])
        n = p["pi"] % p["pn"]
        txi = I.spend(prev.outputs[n])
        txi.sequence = seq
        rprev = R.Tx(p["pv"], [], [R.TxOut((p["amt"] + j) % 2 ** 64, S.build_output(None, "p2pkh", {"hash": hashes[j]}))
                                   for j in range(p["pn"])], pl)
        script = S.build_redeem_p2pkh(b"\x00" * 72, b"\x00" * 33)

        def edit_parent(_prev=prev, _rprev=rprev):
            """the spent transaction (still only in memory) gets one more output: its id changes"""
            _prev.add_outputs([L.Output.pay_pubkey_hash(1234, b"\x07" * 20)])
            _rprev.vout.append(R.TxOut(1234, S.build_output(None, "p2pkh", {"hash": b"\x07" * 20})))
            return _rprev.hash
        PARENT_EDITORS[id(txi)] = edit_parent
        return txi, R.TxIn(rprev.hash, n, script, seq), "pubkey_hash", "spend"
    if k == "spend_tl":
        pl = (p["pl"] + idx) % 2 ** 32
        pkh = B.expand(p["pkh"])
        tl = S.build_timelock(p["height"], pkh)
        sh = hash20(tl)
        prev = L.Transaction(locktime=pl).add_outputs([L.Output.pay_script_hash(p["amt"], sh)])
        txi = I.spend_time_lock(prev.outputs[0], tl)
        txi.sequence = seq
        rprev = R.Tx(1, [], [R.TxOut(p["amt"], S.build_output(None, "p2sh", {"hash": sh}))], pl)
        script = S.build_redeem_timelock(b"\x00" * 72, b"\x00" * 33, p["height"], pkh)
        return txi, R.TxIn(rprev.hash, 0, script, seq), "script_hash+timelock", "spend_time_lock"
    if k == "coinbase":
        b = B.expand(p["b"] if cycle == 0 else {"n": 2 + idx % 90, "s": idx})
        pos = p["pos"]
        txi = I(L.TXORef(L.TXRefImmutable.from_hash(NULL32, -1), pos), b, seq)
        return txi, R.TxIn(NULL32, pos, b, seq), None, "coinbase"
    h = bytes.fromhex(p["hash"]) if cycle == 0 else derived_hash(seed, idx)
    pos = p["pos"] if cycle == 0 else (p["pos"] + cycle) % 2 ** 32
    sc = p["script"]
    t = sc["t"]
    if t == "multisig":
        sigs = [derived_hash(seed, idx * 16 + j, "sg") * 3 for j in range(sc["nsig"])]
        sigs = [x[:sc["siglen"]] for x in sigs]
        pubs = [(b"\x02" + derived_hash(seed, idx * 16 + j, "pb") * 3)[:sc["publen"]] for j in range(sc["npub"])]
        script = IS.redeem_multi_sig_script_hash(sigs, pubs)
        redeem = bytes([0x50 + sc["nsig"]]) + b"".join(S.push(x) for x in pubs) + bytes([0x50 + sc["npub"]]) + b"\xae"
        exp = b"\x00" + b"".join(S.push(x) for x in sigs) + S.push(redeem)
        txi = I(L.TXORef(L.TXRefImmutable.from_hash(h, -1), pos), script, seq)
        return txi, R.TxIn(h, pos, exp, seq), "script_hash+multi_sig", "ref:multisig_redeem%s" % (
            "_ge253" if len(redeem) >= 253 else "_ge76" if len(redeem) >= 76 else "_lt76")
    if t == "pubkey_hash_total":
        pub = B.expand(sc["pub"])
        n = payload_len_for_total(sc["total"] if cycle == 0 else 252 + idx % 3, len(S.push(pub)))
        sig = B.expand({"n": n if n is not None else 72, "s": idx})
        script, exp, name = IS.redeem_pubkey_hash(sig, pub), S.build_redeem_p2pkh(sig, pub), "pubkey_hash"
    else:
        sig = B.expand(shrink_spec(sc["sig"], cycle))
        pub = B.expand(sc["pub"]) if "pub" in sc else None
        if t == "pubkey":
            script, exp, name = IS(template=IS.REDEEM_PUBKEY, values={"signature": sig}), S.build_redeem_p2pk(sig), "pubkey"
        elif t == "pubkey_hash":
            script, exp, name = IS.redeem_pubkey_hash(sig, pub), S.build_redeem_p2pkh(sig, pub), "pubkey_hash"
        else:
            pkh = B.expand(sc["pkh"])
            exp, name = S.build_redeem_timelock(sig, pub, sc["height"], pkh), "script_hash+timelock"
            if t == "timelock":
                script = IS.redeem_time_lock_script_hash(sig, pub, height=sc["height"], pubkey_hash=pkh)
            else:
                script = IS.redeem_time_lock_script_hash(sig, pub, script_source=S.build_timelock(sc["height"], pkh))
    txi = I(L.TXORef(L.TXRefImmutable.from_hash(h, -1), pos), script, seq)
    return txi, R.TxIn(h, pos, exp, seq), name, "ref:" + t


def size_class(n):
    return ("%d" % n) if n in (252, 253, 254, 65535, 65536, 65537) else (
        "lt253" if n < 253 else "lt65536" if n < 65536 else "ge65536")


# -------------------------------------------------------------------------------------------- comparisons

def first_encoding_difference(raw, exp):
    """stable tag naming the first field in which lbry's bytes differ from the expected transaction"""
    try:
        got = R.decode(raw)
    except R.DecodeError:
        return "undecodable"
    if got.version != exp.version:
        return "version"
    if len(got.vin) != len(exp.vin):
        return "input-count"
    for a, b in zip(got.vin, exp.vin):
        for f in ("prev_hash", "prev_index", "script", "sequence"):
            if getattr(a, f) != getattr(b, f):
                return "input." + f
    if len(got.vout) != len(exp.vout):
        return "output-count"
    for a, b in zip(got.vout, exp.vout):
        for f in ("value", "script"):
            if getattr(a, f) != getattr(b, f):
                return "output." + f
    if got.locktime != exp.locktime:
        return "locktime"
    if got.has_witness != exp.has_witness:
        return "witness-presence"
    return "non-canonical-length-prefix"


def compare_parsed(out, tx, exp, in_names=None, out_names=None, tagp="parse"):
    """lbry Transaction (parsed from bytes) vs expected reference Tx, field by field"""
    if tx.version != exp.version:
        return out.violate(tagp + ":version", "%r != %r" % (tx.version, exp.version))
    if tx.locktime != exp.locktime:
        return out.violate(tagp + ":locktime", "%r != %r" % (tx.locktime, exp.locktime))
    if len(tx.inputs) != len(exp.vin):
        return out.violate(tagp + ":input-count", "%d != %d" % (len(tx.inputs), len(exp.vin)))
    if len(tx.outputs) != len(exp.vout):
        return out.violate(tagp + ":output-count", "%d != %d" % (len(tx.outputs), len(exp.vout)))
    for n, (a, b) in enumerate(zip(tx.inputs, exp.vin)):
        if a.txo_ref.tx_ref.hash != b.prev_hash or a.txo_ref.tx_ref.id != b.prev_hash[::-1].hex():
            return out.violate(tagp + ":input.prev_hash", "input %d: %s != %s" % (n, hx(a.txo_ref.tx_ref.hash),
                                                                                  hx(b.prev_hash)))
        if a.txo_ref.position != b.prev_index:
            return out.violate(tagp + ":input.prev_index", "input %d: %r != %r" % (n, a.txo_ref.position, b.prev_index))
        if a.sequence != b.sequence:
            return out.violate(tagp + ":input.sequence", "input %d: %r != %r" % (n, a.sequence, b.sequence))
        null = b.prev_hash == NULL32
        if a.is_coinbase != null:
            return out.violate(tagp + ":input.is_coinbase", "input %d" % n)
        got = a.coinbase if null else getattr(a.script, "source", None)
        if not isinstance(got, bytes):
            return out.violate(tagp + ":input.script-type", "input %d: coinbase=%r script=%r" % (
                n, type(a.coinbase).__name__, type(a.script).__name__))
        if got != b.script:
            return out.violate(tagp + ":input.script", "input %d: %s != %s" % (n, hx(got), hx(b.script)))
        if a.position != n:
            return out.violate(tagp + ":input.position", "input %d has position %r" % (n, a.position))
        if in_names and in_names[n] is not None:
            try:
                nm = a.script.template.name
            except ValueError:
                nm = None
            if nm != in_names[n]:
                return out.violate(tagp + ":input.script-template", "input %d: %r != %r script=%s" % (
                    n, nm, in_names[n], hx(b.script)))
    for n, (a, b) in enumerate(zip(tx.outputs, exp.vout)):
        if a.amount != b.value:
            return out.violate(tagp + ":output.amount", "output %d: %r != %r" % (n, a.amount, b.value))
        if a.script.source != b.script:
            return out.violate(tagp + ":output.script", "output %d: %s != %s" % (n, hx(a.script.source), hx(b.script)))
        if a.position != n:
            return out.violate(tagp + ":output.position", "output %d has position %r" % (n, a.position))
        if out_names and out_names[n] is not None:
            try:
                nm = a.script.template.name
            except ValueError:
                nm = None
            if nm != out_names[n]:
                return out.violate(tagp + ":output.script-template", "output %d: %r != %r script=%s" % (
                    n, nm, out_names[n], hx(b.script)))
    return True


def check_ids(out, tx, exp, tagp):
    if tx.id != exp.txid or tx.hash != exp.hash:
        out.violate(tagp + ":txid", "lbry id=%s reference txid=%s (wtxid=%s)" % (tx.id, exp.txid, exp.wtxid))
        return False
    if tx.ref.id != exp.txid:
        out.violate(tagp + ":ref.id", "%s != %s" % (tx.ref.id, exp.txid))
        return False
    return True


# -------------------------------------------------------------------------------------------- part built

def run_built(case):
    out = Out()
    L = _imports()
    seed = case["seed"]
    PARENT_EDITORS.clear()
    ins, vin, in_names = [], [], []
    for i in range(case["n_in"]):
        p = case["ins"][i % len(case["ins"])]
        txi, rin, nm, lb = build_input(L, p, i // len(case["ins"]), i, seed)
        ins.append(txi)
        vin.append(rin)
        in_names.append(nm)
        if i < 8:
            out.label("in:" + lb)
    outs, vout, out_names = [], [], []
    for i in range(case["n_out"]):
        p = case["outs"][i % len(case["outs"])]
        txo, script, amt, nm, lb = build_output(L, p, i // len(case["outs"]), i)
        outs.append(txo)
        vout.append(R.TxOut(amt, script))
        out_names.append(nm)
        if i < 8:
            out.label("out:" + lb, "amt:" + ("ge2^63" if amt >= 2 ** 63 else "ge2^32" if amt >= 2 ** 32 else "lt2^32"))
    exp = R.Tx(case["version"], vin, vout, case["locktime"])
    tx = L.Transaction(version=case["version"], locktime=case["locktime"])
    touch = case.get("touch", "no")
    if touch == "no":
        tx.add_inputs(ins).add_outputs(outs)
    else:
        hi, ho = (len(ins) + 1) // 2, (len(outs) + 1) // 2
        tx.add_inputs(ins[:hi]).add_outputs(outs[:ho])
        _ = {"raw": lambda: tx.raw, "id": lambda: tx.id, "size": lambda: tx.size + tx.base_size}[touch]()
        if case.get("parent_edit"):
            # ... and a transaction being spent (in memory only, e.g. not signed yet) changes after that first look: what is
            # serialised in the end must name the parent as it is then
            edited = 0
            for k in range(hi):
                ed = PARENT_EDITORS.get(id(ins[k]))
                if ed is not None:
                    exp.vin[k] = R.TxIn(ed(), exp.vin[k].prev_index, exp.vin[k].script, exp.vin[k].sequence)
                    edited += 1
            if edited:
                out.label("parent_edited_after_first_serialisation")
        tx.add_outputs(outs[ho:]).add_inputs(ins[hi:])
        # inputs were appended after the second half of the outputs: order within each list is what matters
    out.label("touch:" + touch)
    lens = [len(i.script) for i in exp.vin] + [len(o.script) for o in exp.vout]
    out.label("n_in:" + size_class(len(vin)), "n_out:" + size_class(len(vout)))
    for n in sorted(set(size_class(x) for x in lens)):
        out.label("script_len:" + n)
    for f in ("version", "locktime"):
        out.label("%s:%s" % (f, "edge" if case[f] in U32_EDGES else "inner"))
    out.nontrivial = (len(vin) >= 253 or len(vout) >= 253 or max(lens) >= 253 or
                      any(n != "pay_pubkey_hash" for n in out_names))
    if case.get("edit_output_after_read"):
        # an output script is regenerated in place after the transaction was serialised once (a channel signs its claim, a key
        # is rotated); the callers then rely on _reset() - the first thing sign() does - to bring the bytes up to date
        ks = [k for k, nm in enumerate(out_names) if nm == "pay_pubkey_hash"]
        if ks:
            k = ks[case["seed"] % len(ks)]
            _ = tx.raw, tx.id, tx.size
            newhash = derived_hash(seed, k, "edit")[:20]
            outs[k].script.values["pubkey_hash"] = newhash
            outs[k].script.generate()
            tx._reset()
            exp.vout[k] = R.TxOut(exp.vout[k].value, S.build_output(None, "p2pkh", {"hash": newhash}))
            out.label("output_script_regenerated_after_first_serialisation")
    expect_raw = exp.encode_legacy()
    # (2) the library's bytes are the reference encoder's bytes
    raw = tx.raw
    if raw != expect_raw:
        out.violate("encode:" + first_encoding_difference(raw, exp), "lbry=%s\nref =%s" % (hx(raw, 120),
                                                                                          hx(expect_raw, 120)))
        return out
    if tx.size != len(expect_raw):
        out.violate("encode:size", "%r != %d" % (tx.size, len(expect_raw)))
    # (3) id of the built transaction
    check_ids(out, tx, exp, "built")
    # the reference decoder reads the library's bytes to the expected structure
    assert R.decode(raw, canonical=True) == exp
    # (1) parse back, field by field, then re-serialise
    parsed = L.Transaction(raw)
    if compare_parsed(out, parsed, exp, in_names, out_names) is not True:
        return out
    check_ids(out, parsed, exp, "parsed")
    parsed._reset()
    again = parsed.raw
    if again != raw:
        out.violate("reserialize:" + first_encoding_difference(again, exp), "lbry=%s\nwant=%s" % (hx(again, 120),
                                                                                                 hx(raw, 120)))
    else:
        check_ids(out, parsed, exp, "reserialized")
    return out


# ------------------------------------------------------------------------------------------- part segwit

WIT_LENS = [0, 1, 20, 32, 33, 64, 71, 72, 73, 107, 252, 253, 254, 520, 521, 65535, 65536]


@st.composite
def segwit_case(draw):
    ins = []
    for _ in range(draw(st.integers(1, 4))):
        kind = draw(st.sampled_from(["native", "native", "p2sh_p2wpkh", "p2sh_p2wsh", "legacy"]))
        wit = []
        if kind != "legacy":
            wit = draw(st.lists(st.one_of(B.sized(st.sampled_from(WIT_LENS)), B.explicit(40), B.sized(st.integers(0, 600))),
                                min_size=0, max_size=5))
        ins.append({"kind": kind, "hash": draw(st.binary(min_size=32, max_size=32).filter(lambda b: b != NULL32)).hex(),
                    "pos": draw(u32), "seq": draw(u32), "wit": wit, "s": draw(B.seeds),
                    "rep": 0 if kind == "legacy" else draw(st.sampled_from([0, 0, 0, 0, 0, 0, 252, 253, 254, 300]))})
    outs = []
    for _ in range(draw(st.integers(1, 4))):
        t = draw(st.sampled_from(["p2wpkh", "p2wsh", "p2pkh", "p2sh", "nulldata", "claim", "support", "raw"]))
        outs.append({"t": t, "amt": draw(u64), "h": draw(B.sized(st.just(32 if t == "p2wsh" else 20))),
                     "v": draw(B.data_spec(big=False))})
    return {"version": draw(st.one_of(st.sampled_from([1, 2]), u32)), "locktime": draw(u32), "ins": ins,
            "n_in": draw(counts), "outs": outs, "n_out": draw(counts), "seed": draw(B.seeds)}


def run_segwit(case):
    out = Out()
    L = _imports()
    seed = case["seed"]
    vin, wits = [], []
    for i in range(case["n_in"]):
        p = case["ins"][i % len(case["ins"])]
        cyc = i // len(case["ins"])
        h = bytes.fromhex(p["hash"]) if cyc == 0 else derived_hash(seed, i)
        pos = p["pos"] if cyc == 0 else (p["pos"] + cyc) % 2 ** 32
        seq = p["seq"] if cyc == 0 else (p["seq"] ^ (i * 2654435761)) % 2 ** 32
        k = p["kind"]
        if k == "native":
            script = b""
        elif k == "p2sh_p2wpkh":
            script = S.assemble([S.assemble(S.witness_items(derived_hash(p["s"], i, "wp")[:20]))])
        elif k == "p2sh_p2wsh":
            script = S.assemble([S.assemble(S.witness_items(derived_hash(p["s"], i, "ws")))])
        else:
            script = S.build_redeem_p2pkh(B.expand({"n": 72, "s": p["s"]}), B.expand({"n": 33, "s": p["s"] + 1}))
        vin.append(R.TxIn(h, pos, script, seq))
        wits.append([B.expand(shrink_spec(w, cyc)) for w in p["wit"]] + ([b"\x07"] * p["rep"] if cyc == 0 else []))
        if i < 8:
            out.label("in:" + k, "stack:%d" % len(p["wit"]))
    if not any(wits):
        wits[0] = [b"\x01"]
        out.label("forced_witness")
    vout = []
    for i in range(case["n_out"]):
        p = case["outs"][i % len(case["outs"])]
        cyc = i // len(case["outs"])
        amt = p["amt"] if cyc == 0 else (p["amt"] + i * 0x0101010101) % 2 ** 64
        h, v = B.expand(p["h"]), B.expand(p["v"])
        t = p["t"]
        script = {"p2wpkh": lambda: S.assemble(S.witness_items(h)), "p2wsh": lambda: S.assemble(S.witness_items(h)),
                  "p2pkh": lambda: S.build_output(None, "p2pkh", {"hash": h}),
                  "p2sh": lambda: S.build_output(None, "p2sh", {"hash": h}),
                  "nulldata": lambda: S.build_output(None, "nulldata", {"hash": v}),
                  "claim": lambda: S.build_output("claim", "p2pkh", {"name": b"name", "value": v, "hash": h}),
                  "support": lambda: S.build_output("support", "p2sh", {"name": b"name", "claim_id": h, "hash": h}),
                  "raw": lambda: v}[t]()
        vout.append(R.TxOut(amt, script))
        if i < 8:
            out.label("out:" + t)
    exp = R.Tx(case["version"], vin, vout, case["locktime"], wits)
    raw = exp.encode()
    assert raw[4:6] == b"\x00\x01" and R.decode(raw, canonical=True) == exp
    items = [len(w) for st_ in wits for w in st_]
    out.label("n_in:" + size_class(len(vin)), "n_out:" + size_class(len(vout)))
    for n in sorted(set(size_class(x) for x in items)):
        out.label("wit_item:" + n)
    for n in sorted(set(size_class(len(st_)) for st_ in wits)):
        out.label("wit_stack:" + n)
    out.nontrivial = True   # every case carries witness data; the id must ignore it
    tx = L.Transaction(raw)
    if compare_parsed(out, tx, exp, tagp="segwit-parse") is not True:
        return out
    legacy = exp.encode_legacy()
    if tx.raw != raw:
        out.violate("segwit:raw-changed", "Transaction(raw).raw differs from the bytes given")
    if tx.raw_sans_segwit != legacy:
        out.violate("segwit:raw_sans_segwit:" + first_encoding_difference(tx.raw_sans_segwit, R.Tx(
            exp.version, exp.vin, exp.vout, exp.locktime)), "lbry=%s\nref =%s" % (hx(tx.raw_sans_segwit, 100),
                                                                                 hx(legacy, 100)))
        return out
    check_ids(out, tx, exp, "segwit")
    # the same transaction in legacy form has the same id
    tx2 = L.Transaction(legacy)
    if compare_parsed(out, tx2, R.Tx(exp.version, exp.vin, exp.vout, exp.locktime), tagp="stripped-parse") is True:
        check_ids(out, tx2, exp, "stripped")
    return out


# ------------------------------------------------------------------------------------------- part corpus

def corpus_cases(tier, shard, nshards):
    items = [(n, raw.hex(), R.KNOWN_IDS.get(n)) for n, raw in R.corpus()]
    items.append(("btc_genesis", R.BTC_GENESIS, R.BTC_GENESIS_TXID))
    items.append(("bip143_p2wpkh_unsigned", R.BIP143_UNSIGNED, None))
    items.append(("bip143_p2wpkh_signed", R.BIP143_SIGNED, None))
    for i, (n, h, txid) in enumerate(items):
        if i % nshards == shard:
            yield {"name": n, "raw": h, "txid": txid}


def run_corpus(case):
    out = Out()
    L = _imports()
    raw = bytes.fromhex(case["raw"])
    exp = R.decode(raw, canonical=True)
    assert exp.encode() == raw
    if case.get("txid"):
        assert exp.txid == case["txid"], "reference txid differs from the published id"
    out.label("corpus:" + case["name"], "segwit" if exp.has_witness else "legacy")
    out.nontrivial = True
    tx = L.Transaction(raw)
    from checks.c15_script import template_name
    names = []
    for o in exp.vout:
        c = S.classify_output(o.script)
        has_template = c.known and (c.prefix is None or c.tail in ("p2pkh", "p2sh"))
        names.append(template_name(c.prefix, c.tail) if has_template else None)
    if compare_parsed(out, tx, exp, out_names=names, tagp="corpus-parse") is not True:
        return out
    check_ids(out, tx, exp, "corpus")
    if tx.raw_sans_segwit != exp.encode_legacy():
        out.violate("corpus:raw_sans_segwit", case["name"])
    tx._reset()
    if tx.raw != exp.encode_legacy():
        out.violate("corpus:reserialize:" + first_encoding_difference(tx.raw, R.Tx(
            exp.version, exp.vin, exp.vout, exp.locktime)), case["name"])
    elif tx.id != exp.txid:
        out.violate("corpus:txid-after-reset", "%s != %s" % (tx.id, exp.txid))
    return out


def selftest():
    S.selftest()
    R.selftest()
    assert payload_len_for_total(252, 34) == 216 and payload_len_for_total(65536, 34) == 65499
    assert len(S.push(b"a" * payload_len_for_total(253, 40))) + 40 == 253


PARTS = [
    Part("corpus", None, run_corpus, 0, 0, quick_shards=1, thorough_shards=1, enumerate_cases=corpus_cases,
         essential=("segwit", "legacy", "corpus:transaction__claim_transaction_0")),
    Part("built", lambda tier: built_case(), run_built, 500, 5000, quick_shards=4, thorough_shards=16,
         essential=("n_in:252", "n_in:253", "n_out:252", "n_out:253", "script_len:252", "script_len:253",
                    "script_len:65535", "script_len:65536", "amt:ge2^63", "in:spend", "in:coinbase",
                    "in:spend_time_lock", "in:ref:timelock", "out:claim", "out:claim:obj", "out:update", "out:support",
                    "out:support_data", "out:support_data:obj", "out:purchase", "out:p2sh", "out:tmpl:claim+p2sh",
                    "out:tmpl:plain+nulldata", "version:edge", "locktime:edge")),
    Part("segwit", lambda tier: segwit_case(), run_segwit, 250, 3000, quick_shards=4, thorough_shards=16,
         essential=("n_in:252", "n_in:253", "wit_item:253", "wit_item:lt65536", "wit_item:65536", "wit_stack:253",
                    "wit_stack:252", "in:native",
                    "in:p2sh_p2wpkh", "in:legacy", "out:p2wpkh", "out:claim")),
]
